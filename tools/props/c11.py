"""C11 — decoding device data always terminates, whatever the bytes.

Theorems: lean/ScsiVerif/Props/C11.lean — every decoder model is a total function (Lean's
termination checker accepted each loop with a proof that the buffer shrinks) and the number of loop
iterations is bounded by the buffer size.  Tie + decision on the real code: every real
unmarshall routine (and the sense decoder) runs under a budget of traced source lines
(sys.settrace, a*len+b) on a stream of hostile buffers: every embedded length / count field set to
0, its maximum and inconsistent values, every length 0..n, random noise; where the model returns a
value it is compared with the implementation's."""
import random
import sys

from lib import common, formats
from lib.common import Driver, hx

TARGETS = ["ScsiVerif.Props.C11"]
NEEDS_GEN = True

A, B = 800, 8000     # traced-line budget: A * len(buffer) + B (one loop iteration costs up to ~300 traced lines in decode_bits)


class Budget(Exception):
    pass


TIME_LIMIT = 4.0     # seconds of wall clock per call on top of the traced-line budget: work hidden inside one source
                     # line (a regular expression, a C-level loop) does not show up as traced lines


def run_budgeted(fn, data, kw, budget):
    import signal
    count = [0]

    def on_alarm(signum, frame):
        raise Budget()

    def local(frame, event, arg):
        if event == "line":
            count[0] += 1
            if count[0] > budget:
                raise Budget()
        return local

    def glob(frame, event, arg):
        if event == "call" and "pyscsi" in frame.f_code.co_filename:
            return local
        return None
    old = signal.signal(signal.SIGALRM, on_alarm)
    signal.setitimer(signal.ITIMER_REAL, TIME_LIMIT + len(data) * 1e-4)
    sys.settrace(glob)
    try:
        try:
            return "ok", fn(data, **kw), count[0]
        except Budget:
            return "budget", None, count[0]
        except Exception as e:
            return "raises", type(e).__name__, count[0]
    finally:
        sys.settrace(None)
        signal.setitimer(signal.ITIMER_REAL, 0)
        signal.signal(signal.SIGALRM, old)


def hostile(rng, n_random):
    """buffers with hostile length / count fields"""
    out = []
    for n in list(range(0, 40)) + [64, 96, 255, 256, 1024]:
        out.append(bytearray(n))
        out.append(bytearray([0xFF] * n))
    fields = [(0, 4), (4, 4), (2, 2), (3, 1), (5, 3), (6, 2), (7, 1), (0, 2), (2, 1), (1, 1), (20, 4), (8, 1), (10, 2), (13, 3)]
    for n in (8, 16, 24, 40, 64, 96, 160):
        for _ in range(n_random):
            b = bytearray(rng.getrandbits(8) for _ in range(n))
            # set a few embedded fields to 0 / max / small inconsistent values
            for off, w in rng.sample(fields, rng.randint(1, 4)):
                if off + w <= n:
                    v = rng.choice([0, 0, (1 << (8 * w)) - 1, 1, 3, n, n - 1, n + 1, 4, 8, 12, 16, 24, rng.getrandbits(8 * w)])
                    b[off:off + w] = (v % (1 << (8 * w))).to_bytes(w, "big")
            out.append(b)
    # nested: READ ELEMENT STATUS pages with zero / tiny descriptor lengths and huge byte counts
    for edl in (0, 1, 2, 11, 12, 16, 52, 0xFFFF):
        for bc in (0, 1, 8, 16, 24, 100, 0xFFFFFF):
            for pv in (0, 0x80, 0xC0):
                page = bytearray([rng.choice([1, 2, 3, 4]), pv]) + edl.to_bytes(2, "big") + b"\0" + bc.to_bytes(3, "big") + bytearray(rng.getrandbits(8) for _ in range(40))
                hdr = bytearray(8)
                hdr[5:8] = min(len(page), 0xFFFFFF).to_bytes(3, "big")
                out.append(hdr + page)
    # VPD 0x83 with zero-length designators, PR full status with zero additional lengths, RTPG with zero counts
    for l in (0, 1, 4, 255):
        out.append(bytearray([0, 0x83, 0, 40]) + bytearray([1, 3, 0, l] + [0] * 8) * 4)
    for adl in (0, 1, 24, 0xFFFFFFFF):
        d = bytearray(8 + 72)
        d[4:8] = (72).to_bytes(4, "big")
        for k in range(3):
            d[8 + 24 * k + 20: 8 + 24 * k + 24] = adl.to_bytes(4, "big")
        out.append(d)
    # text inside the data: iSCSI TransportIDs (READ FULL STATUS) with format 00b / 01b and names that are long runs of
    # one character class, lack the ",i,0x" separator, carry a non-hex or empty ISID, NULs or non-UTF-8 bytes
    names = [b"a" * 30, b"a" * 64, b"iqn." + b"x" * 60, b"A1" * 40, b"iqn.2001-04.com.example:" + b"storage" * 8,
             b"a" * 40 + b",i,0x", b"a" * 40 + b",i,0xZZ", b"a" * 40 + b",i,0x0123456789ab", b"." * 50, b"-" * 50, b"a-" * 30,
             b"\xff\xfe" * 20, b"a\0" * 30, b"", b",i,0x", b"iqn.t,i,0x1,i,0x2"]
    for nm in names:
        for fmt in (0x05, 0x45):
            for pad_ok in (True, False):
                body = nm + (b"\0" if pad_ok else b"")
                body += bytes((-len(body)) % 4 if pad_ok else 0)
                tid = bytes([fmt, 0]) + len(body).to_bytes(2, "big") + body
                desc = bytearray(24)
                desc[20:24] = len(tid).to_bytes(4, "big")
                d = bytearray(8) + desc + tid
                d[4:8] = (len(d) - 8).to_bytes(4, "big")
                out.append(d)
    return out


def run(res, tier, build_ok):
    rng = random.Random(common.SEED * 7919 + 11)
    scale = 1 if (tier == "quick" and build_ok) else 6
    drv = Driver()
    decs = formats.decoders()
    from pyscsi.pyscsi.scsi_sense import SCSICheckCondition
    bufs = hostile(rng, 12 * scale)
    reqs = []
    for name, (fn, arglist) in decs.items():
        for kw in arglist:
            for b in bufs:
                if name == "readcd" and len(b) > 200:
                    continue
                budget = A * max(len(b), 3072 * kw.get("tl", 0) // 16 if name == "readcd" else 0) + B
                st, val, lines = run_budgeted(fn, bytearray(b), kw, budget)
                res.case((name, tuple(sorted(kw.items())), bytes(b)), None)
                res.count("decoder " + name)
                res.count("outcome " + st)
                if len(res.samples) < 6 and st == "ok" and len(b) in (24, 40):
                    res.samples.append({"decoder": name, "args": kw, "buffer": bytes(b).hex(), "outcome": st, "traced_lines": lines})
                if st == "budget":
                    res.violation("decoder=%s does not terminate" % name,
                                  "%s.unmarshall_datain exceeded %d traced lines on a %d-byte buffer (budget %d*len+%d)" % (name, budget, len(b), A, B),
                                  {"decoder": name, "args": kw, "buffer": bytes(b).hex()})
                    continue
                reqs.append((name, kw, b, st, val,
                             "unm %s %s E%s" % (name, hx(b), ",".join("%s=i%d" % kv for kv in kw.items()))))
    # the sense decoder: the hostile buffers above, plus descriptor-format sense with every descriptor type and
    # ADDITIONAL LENGTH 0 / 1 / 2 / FFh, complete, cut after the descriptor header, and two descriptors in a row
    sense_bufs = list(bufs)
    for rc in (0x72, 0x73):
        for dtype in range(256):
            for alen in (0, 1, 2, 0xFF):
                for have in sorted({0, min(alen, 3), min(alen, 12)}):
                    d = bytes([dtype, alen]) + bytes([0xA5] * have)
                    for body in (d, d + d):
                        sense_bufs.append(bytes([rc, 0x05, 0x24, 0x00, 0, 0, 0, len(body)]) + body)
    for b in sense_bufs:
        if len(b) == 0:
            continue
        st, val, lines = run_budgeted(lambda d: str(SCSICheckCondition(d)), bytearray(b), {}, A * len(b) + B)
        res.case(("sense", bytes(b)), None)
        res.count("decoder sense")
        if st == "budget":
            res.violation("decoder=sense does not terminate", "SCSICheckCondition exceeded the budget", {"buffer": bytes(b).hex()})
    reps = drv.batch([r[5] for r in reqs])
    agree = 0
    for (name, kw, b, st, val, line), rep in zip(reqs, reps):
        if rep.startswith("ok ") and st == "ok":
            try:
                mod = formats.parse_text(rep[3:])
            except Exception as e:
                raise common.Infra("cannot parse model reply %r: %s" % (rep[:80], e))
            if mod != formats.normalize(val):
                res.tie_break("decoder model %s disagrees with the implementation on a buffer both decode" % name,
                              {"decoder": name, "args": kw, "buffer": bytes(b).hex(), "model": rep[:300], "implementation": str(val)[:300]})
            else:
                agree += 1
        elif rep.startswith("err ") and st == "raises":
            agree += 1
        elif rep == "bad-op":
            raise common.Infra("driver does not know " + line[:60])
        else:
            res.count("model/implementation differ in ok-vs-raise on hostile input (not judged: outside C04's domain)")
    res.count("model agreements", agree)
    res.assumptions += ["the budget counts traced source lines inside pyscsi (%d*len+%d); C-level work per line (slicing) is linear in the buffer" % (A, B),
                        "READ CD iterates the caller's transfer length, not the buffer (buffer = 3072 bytes per sector)",
                        "on hostile input the model is compared where both sides return a value or both raise; exact exception classes are not part of the property"]
