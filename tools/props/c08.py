"""C08 — sense data is always decodable and printable, with the right key/ASC/ASCQ.

Theorems: lean/ScsiVerif/Props/C08.lean (never_raises, reports_spc_fields for all buffers; T10
texts decided on the regenerated table).  Tie: Gen tables + correspondence of SCSICheckCondition
(construction, attributes, str) with Sense.mk / Sense.str; oracle Std.senseFields."""
import random

from lib import common
from lib.common import Driver, hx

TARGETS = ["ScsiVerif.Props.C08"]
NEEDS_GEN = True


def run(res, tier, build_ok):
    from pyscsi.pyscsi.scsi_sense import SCSICheckCondition
    rng = random.Random(common.SEED * 7919 + 8)
    thorough = not (tier == "quick" and build_ok)
    drv = Driver()
    bufs = []

    def mk(rc, key, asc, ascq, length, junk=True):
        b = bytearray(rng.getrandbits(8) for _ in range(max(length, 1))) if junk else bytearray(max(length, 1))
        b[0] = (b[0] & 0x80) | rc
        if rc in (0x70, 0x71):
            pos = (2, 12, 13)
        else:
            pos = (1, 2, 3)
        if len(b) > pos[0]:
            b[pos[0]] = (b[pos[0]] & 0xF0) | key
        if len(b) > pos[1]:
            b[pos[1]] = asc
        if len(b) > pos[2]:
            b[pos[2]] = ascq
        return b[:length] if length >= 1 else b[:1]

    # every ASC/ASCQ pair (one format/key in quick, all four formats x 16 keys in thorough)
    combos = [(0x70, 5)] if not thorough else [(rc, k) for rc in (0x70, 0x71, 0x72, 0x73) for k in range(16)]
    for rc, key in combos:
        for asc in range(256):
            for ascq in range(256):
                if thorough and (rc, key) != (0x70, 5) and rng.random() > 0.05:
                    continue
                bufs.append(mk(rc, key, asc, ascq, 18, junk=False))
    # all formats x all keys, random pairs, all lengths 1..252, unknown response codes
    for rc in list(range(0x70, 0x74)) + [0x00, 0x6F, 0x74, 0x7E, 0x7F, 0x01]:
        for key in range(16):
            for _ in range(6 if not thorough else 40):
                bufs.append(mk(rc, key, rng.getrandbits(8), rng.getrandbits(8), rng.choice([18, 32, 96, 252, 8, 14])))
    for length in range(1, 253):
        for rc in (0x70, 0x71, 0x72, 0x73, rng.randrange(128)):
            bufs.append(mk(rc, rng.randrange(16), rng.getrandbits(8), rng.getrandbits(8), length))
    # all-zero buffers (response code 00h: "CHECK CONDITION, no sense supplied") and buffers ending in long zero runs
    for length in (1, 2, 8, 14, 18, 32, 96, 252):
        bufs.append(bytearray(length))
    for length in (18, 32, 96):
        for rc in (0x70, 0x72):
            b = bytearray(length)
            b[0] = rc
            bufs.append(b)
    # the error classes a user actually catches are bound to the device classes (SCSIDevice.CheckCondition,
    # ISCSIDevice.CheckCondition); they must behave like the base class on every buffer
    import sys
    from lib import virtos
    virtos.VirtualOS().install()
    from pyscsi.pyscsi.scsi_device import SCSIDevice
    from pyscsi.pyiscsi.iscsi_device import ISCSIDevice
    classes = [SCSICheckCondition, SCSIDevice.CheckCondition, ISCSIDevice.CheckCondition]
    zero_tail = [b for b in bufs if not any(b[1:])]
    bufs = bufs + zero_tail + zero_tail           # so that each of them meets each of the three classes
    reqs = []
    # phase 1: construct every error object; phase 2: only then inspect/print them, so that an error
    # object is looked at after many others were created (no shared state between error objects)
    objs = []
    nz = len(bufs) - 2 * len(zero_tail)
    stalls = []
    for i, b in enumerate(bufs):
        cls = classes[i % 3] if i < nz else classes[(i - nz) // len(zero_tail) + 1]
        res.count("error class " + ("base SCSICheckCondition" if cls is SCSICheckCondition else cls.__qualname__ if hasattr(cls, "__qualname__") else str(cls)))
        try:
            with common.time_limit(5.0):
                objs.append(cls(bytearray(b)))
        except common.Stalled:
            res.violation("sense rc=%#x does not terminate" % (b[0] & 0x7F), "decoding a %d-byte sense buffer (response code %#x) did not finish within 5 s" % (len(b), b[0] & 0x7F),
                          {"sense": bytes(b).hex()})
            objs.append(RuntimeError("stalled"))
            stalls.append(1)
            if len(stalls) >= 3:
                break           # every further buffer of this shape would cost its full time budget
        except Exception as ex:
            objs.append(ex)
    for b, e in zip(bufs, objs):
        rc = b[0] & 0x7F
        try:
            if not isinstance(e, SCSICheckCondition):
                raise e
            with common.time_limit(5.0):
                s = str(e)
            print_ok = True
            if getattr(e, "asc", None) is not None and "sense_key" in e.data:
                trip = "%d/%d/%d" % (e.data["sense_key"], e.asc, e.ascq)
            else:
                trip = "none"
            impl = "ok triple=%s str=%s" % (trip, s)
        except Exception as ex:
            impl = "raises " + type(ex).__name__
            trip = None
        res.case(bytes(b[:16]), {"sense": bytes(b[:18]).hex(), "len": len(b), "result": impl[:120]})
        res.count("response code %#x" % rc if 0x70 <= rc <= 0x73 else "unknown response code")
        res.count("length %s" % ("<18" if len(b) < 18 else ">=18"))
        # the property itself, on the implementation
        if rc in (0x70, 0x71):
            want = "%d/%d/%d" % ((b[2] & 0x0F) if len(b) > 2 else 0, b[12] if len(b) > 12 else 0, b[13] if len(b) > 13 else 0)
        elif rc in (0x72, 0x73):
            want = "%d/%d/%d" % ((b[1] & 0x0F) if len(b) > 1 else 0, b[2] if len(b) > 2 else 0, b[3] if len(b) > 3 else 0)
        else:
            want = None
        if impl.startswith("raises"):
            res.violation("sense rc=%#x %s" % (rc, impl), "SCSICheckCondition/str() %s for a sense buffer (response code %#x, %d bytes)" % (impl, rc, len(b)),
                          {"sense": bytes(b).hex()})
        elif want is not None and trip != want:
            res.violation("sense fields rc=%#x" % rc, "key/ASC/ASCQ reported %s, SPC positions hold %s" % (trip, want), {"sense": bytes(b).hex()})
        reqs.append(("sense " + hx(b), impl, want))
    # ---- "assigned codes are described by their T10 text", judged on the implementation itself: every ASC/ASCQ pair and
    #      sense key in the oracle's list of well-known assignments (Std.ascqNames / Std.senseKeyNames), in all four
    #      formats, must appear in str() under the T10 text (letter case aside)
    names = drv.batch(["t10ascq %d" % c for c in range(65536)])
    keys = drv.batch(["t10sensekey %d" % k for k in range(16)])
    for code, r in enumerate(names):
        if not r.startswith("ok "):
            continue
        text = r[3:]
        for rc in (0x70, 0x71, 0x72, 0x73):
            k = 1 + (code % 13)
            b = mk(rc, k, code >> 8, code & 0xFF, 18, junk=False)
            res.count("T10 text of assigned ASC/ASCQ")
            try:
                got = str(classes[(code + rc) % 3](bytearray(b)))
            except Exception as ex:
                got = "raises " + type(ex).__name__
            kr = keys[k]
            if text.upper() not in got.upper() or (kr.startswith("ok ") and kr[3:].upper() not in got.upper()):
                res.violation("sense text asc/ascq", "ASC/ASCQ %02X/%02Xh (T10: %s), sense key %Xh: described as %r" % (code >> 8, code & 0xFF, text, k, got[:160]),
                              {"sense": bytes(b).hex(), "t10_text": text})
                break
    # ---- the optional field dump (`print_data=True`): constructing, str() and print() must not raise either, for any
    #      response code (the dump goes to a scratch stream)
    import contextlib
    import io
    dump = [b for i, b in enumerate(bufs) if i % 97 == 0 or not (0x70 <= (b[0] & 0x7F) <= 0x73)][:3000]
    for i, b in enumerate(dump):
        cls = classes[i % 3]
        res.cases += 1
        res.count("constructed with print_data=True")
        sink = io.StringIO()
        try:
            with contextlib.redirect_stdout(sink):
                e = cls(bytearray(b), True)
                str(e)
                print(e)
        except Exception as ex:
            res.violation("sense print_data rc=%#x raises %s" % (b[0] & 0x7F, type(ex).__name__),
                          "CheckCondition(sense, print_data=True) / str() / print() raises %s for a %d-byte sense buffer with response code %#x" % (
                              type(ex).__name__, len(b), b[0] & 0x7F), {"sense": bytes(b).hex(), "print_data": True})
            break
    # ---- the same buffers as a target returns them: through SCSIDevice.execute / ISCSIDevice.execute (CHECK CONDITION),
    #      the error the caller catches must report the SPC positions of exactly the buffer the target sent
    sgio, iscsi = sys.modules["sgio"], sys.modules["iscsi"]
    vos = virtos.VirtualOS()
    vos.install()
    vos.mknod("/dev/sgc08")
    from pyscsi.pyscsi.scsi_cdb_testunitready import TestUnitReady
    from lib import cmds
    tur_op = cmds.opcode_sets()["spc"].TEST_UNIT_READY
    sdev = SCSIDevice("/dev/sgc08", detect_replugged=False)
    idev = ISCSIDevice("iscsi://h/iqn.t/0", "iqn.i")
    cur = {"sense": None}
    sgio.BACKEND = lambda f, cdb, do, di: (2, cur["sense"])
    iscsi.BACKEND = lambda lun, task, do, di: (2, cur["sense"])
    through = []
    for n in range(8, 33):                      # fixed format, every honest length, and the same inside a 32/96-byte buffer
        for rc in (0x70, 0x71):
            b = bytearray(n)
            b[0], b[2], b[7] = rc, 1 + rng.randrange(14), n - 8
            if n > 12:
                b[12] = 1 + rng.randrange(255)
            if n > 13:
                b[13] = 1 + rng.randrange(255)
            through += [b, b + bytearray(max(0, 32 - n)), b + bytearray(96 - n)]
    for n in (8, 12, 20, 32):                   # descriptor format
        for rc in (0x72, 0x73):
            b = bytearray(n)
            b[0], b[1], b[2], b[3], b[7] = rc, 1 + rng.randrange(14), 1 + rng.randrange(255), 1 + rng.randrange(255), n - 8
            through.append(b)
    through += [bytearray(b) for b in rng.sample(bufs, min(len(bufs), 300))]
    for b in through:
        rc = b[0] & 0x7F
        if rc in (0x70, 0x71):
            want = ((b[2] & 15) if len(b) > 2 else 0, b[12] if len(b) > 12 else 0, b[13] if len(b) > 13 else 0)
        elif rc in (0x72, 0x73):
            want = ((b[1] & 15) if len(b) > 1 else 0, b[2] if len(b) > 2 else 0, b[3] if len(b) > 3 else 0)
        else:
            want = None
        for kind, dev in (("sgio", sdev), ("iscsi", idev)):
            cur["sense"] = bytearray(b)
            res.count("sense delivered through " + kind)
            res.cases += 1
            try:
                dev.execute(TestUnitReady(tur_op))
                got = "returned"
            except SCSICheckCondition as e:
                try:
                    str(e)
                    got = (e.data.get("sense_key"), e.asc, e.ascq) if getattr(e, "asc", None) is not None and "sense_key" in e.data else None
                except Exception as ex:
                    got = "str raises " + type(ex).__name__
            except Exception as ex:
                got = "raises " + type(ex).__name__
            if isinstance(got, str) or (want is not None and got != want):
                res.violation("sense through %s rc=%#x" % (kind, rc),
                              "CHECK CONDITION over %s with %d bytes of sense (response code %#x): the error reports %s, the SPC positions hold %s" % (
                                  kind, len(b), rc, got, want), {"transport": kind, "sense": bytes(b).hex()})
                break
    sgio.BACKEND = None
    iscsi.BACKEND = None
    reps = drv.batch([r[0] for r in reqs])
    for (line, impl, want), rep in zip(reqs, reps):
        # model reply: ok triple=T std=S str=…
        if rep.startswith("ok "):
            head, _, text = rep.partition(" str=")
            parts = head.split(" ")
            mod = "ok %s str=%s" % (parts[1], text)
            std = parts[2][4:]
            if std != (want or "none"):
                res.tie_break("Std.senseFields disagrees with the harness' reading of SPC", {"request": line[:80], "std": std, "harness": want})
        else:
            mod = rep
        if mod != impl and not impl.startswith("raises"):
            res.tie_break("Sense model disagrees with SCSICheckCondition", {"request": line[:80], "model": mod[:200], "implementation": impl[:200]})
    res.exhaustive = thorough
    res.assumptions += ["T10 texts: ~80 well-known ASC/ASCQ assignments in Std/Sense.lean are checked; the library's other table entries are modelled, not verified",
                        "an empty sense buffer (length 0) is outside the property (lengths 1..252)"]
