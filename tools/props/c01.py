"""C01 — every CDB the library builds has the standard's wire format.

Theorems: lean/ScsiVerif/Props/C01.lean — `cdb_meets_standard` (all argument values) + per command
`<Cls>_cdb` / `<Cls>_sets` decided by the kernel on Gen (regenerated from the source).
Tie: Gen (translator) + three-way correspondence  real constructor  vs  Cmd.build  vs  Std.encode.
"""
import random

from lib import cmds, common
from lib.common import Driver

TARGETS = ["ScsiVerif.Props.C01"] + ["ScsiVerif.Props.C01" + x for x in "abcdef"]
NEEDS_GEN = True

CAP = 1 << 20   # largest buffer the harness lets a generated tuple allocate (bytes)


def size_params(c):
    """constructor parameters that scale a buffer allocation (found in the generated length expressions)"""
    out = set()

    def walk(e):
        if isinstance(e, list):
            if e and e[0] == "param":
                out.add(e[1])
            for x in e[1:]:
                walk(x)
    walk(c.get("dataoutLen"))
    walk(c.get("datainLen"))
    if c["cls"].startswith("ATAPassThrough"):
        out |= {"fetures", "count", "extra_tl"}
    # independent of the translator: a constructor rewritten into a shape the translator no longer reads must not
    # lose the allocation cap (the harness would ask the real code for terabyte buffers)
    names = {p[0] for p in c.get("params", [])}
    if c["cls"].startswith(("Read", "Write")) and not c["cls"].startswith("WriteSame"):
        out |= {"tl", "blocksize"} & names
    out |= {"alloclen", "alloc_len"} & names
    return out


def special_kwargs(cls, rng):
    """valid non-CDB arguments for the constructors that marshal a parameter list"""
    if cls in ("ModeSelect6", "ModeSelect10"):
        return {"data": {"medium_type": rng.getrandbits(8), "device_specific_parameter": rng.getrandbits(8),
                         "mode_pages": [{"ps": 0, "spf": 0, "page_code": 0x0A, "tst": 1, "swp": rng.getrandbits(1),
                                         "busy_timeout_period": rng.getrandbits(16)}]}}
    if cls == "PersistentReserveOut":
        return {"reservation_key": rng.getrandbits(64), "service_action_reservation_key": rng.getrandbits(64),
                "aptpl": rng.getrandbits(1)}
    return {}


def make_cases(c, std, rng, scale):
    """list of kwargs dicts (complete: every parameter given explicitly)"""
    params = [p for p in c["params"]]
    names = [p[0] for p in params]
    fld = {f["arg"]: f for f in std["fields"] if f["kind"] in ("arg", "ata12", "ata16")}
    sizep = size_params(c)

    def width_of(n):
        f = fld[n]
        return {"ata12": 24, "ata16": 48}.get(f["kind"], f["width"])

    def base():
        kw = {}
        for n, d in params:
            if n in fld:
                w = width_of(n)
                v = rng.getrandbits(w)
                if n in sizep:
                    v = rng.randint(0, min(48, (1 << w) - 1))
                kw[n] = v
            elif n == "blocksize":
                kw[n] = rng.choice([1, 512, 4096, 520])
            elif n in ("data", "inline_data"):
                kw[n] = None
            elif d is not None and d[0] == "int":
                kw[n] = d[1]
            elif d is not None and d[0] == "none":
                kw[n] = None
            elif d is not None and d[0] == "bytes":
                kw[n] = bytearray(d[1])
            elif d is not None and d[0] == "opaque":
                kw[n] = "DEFAULT"
            else:
                kw[n] = 0
        return kw

    cases = []
    for n in names:
        if n not in fld:
            continue
        w = width_of(n)
        vals = cmds.interesting_values(rng, w, 2 * scale)
        for v in vals:
            kw = base()
            if n in sizep:
                bs = kw.get("blocksize", 1) or 1
                mult = 3072 if c["cls"] == "ReadCd" else bs
                if v * mult > CAP:
                    kw["blocksize"] = 1 if "blocksize" in kw else None
                    if "blocksize" not in names:
                        kw.pop("blocksize", None)
                    mult = 3072 if c["cls"] == "ReadCd" else 1
                    if v * mult > CAP:
                        continue   # the theorem covers it; the real allocation would be gigabytes
            kw[n] = v
            cases.append(kw)
    for _ in range(6 * scale):
        cases.append(base())
    # all combinations of one-bit flags
    flags = [n for n in names if n in fld and width_of(n) == 1]
    if 0 < len(flags) <= 6:
        for m in range(1 << len(flags)):
            kw = base()
            for i, n in enumerate(flags):
                kw[n] = (m >> i) & 1
            cases.append(kw)
    return cases


def finalize_kwargs(c, kw, rng):
    """fill data buffers / special arguments; returns kwargs for the real constructor"""
    kw = dict(kw)
    cls = c["cls"]
    kw = {k: v for k, v in kw.items() if v != "DEFAULT"}
    if cls.startswith("ATAPassThrough"):
        # keep the implied transfer small: the transfer rules are C03's business
        if kw.get("t_length") in (1, 2, 3) and kw.get("byte_block") and kw.get("t_type") and not kw.get("blocksize"):
            kw["blocksize"] = 512
        tl = {1: kw.get("fetures", 0), 2: kw.get("count", 0), 3: kw.get("extra_tl") or 0}.get(kw.get("t_length"), 0)
        if tl * 4096 > CAP:
            kw["t_length"] = 0
        kw["data"] = None
    if "data" in kw and kw["data"] is None and cls.startswith(("Write",)):
        bs = kw.get("blocksize", 0)
        n = kw.get("tl", 1) if cls.startswith("Write1") else 1
        kw["data"] = bytearray(rng.getrandbits(8) for _ in range(min(bs * n, 64))) + bytearray(max(0, min(bs * n, CAP) - 64))
    if "inline_data" in kw and kw["inline_data"] is None:
        kw["inline_data"] = bytearray(rng.getrandbits(8) for _ in range(rng.randint(0, 5)))
    kw.update(special_kwargs(cls, rng))
    return kw


def run(res, tier, build_ok):
    rng = random.Random(common.SEED * 7919 + 1)
    scale = 1 if (tier == "quick" and build_ok) else 4
    data = cmds.gen_data()
    drv = Driver()
    std = cmds.StdInfo(drv, data["commands"])
    sets = cmds.opcode_sets()
    reqs = []
    # "the CDB handed to the transport": one long-lived device of each kind carries every command built below
    import sys as _sys
    from lib import virtos
    sgio, iscsi = _sys.modules["sgio"], _sys.modules["iscsi"]
    from pyscsi.pyscsi.scsi_device import SCSIDevice
    from pyscsi.pyiscsi.iscsi_device import ISCSIDevice
    vos = virtos.VirtualOS()
    vos.install()
    vos.mknod("/dev/sgv")
    wire = []
    sgio.BACKEND = lambda f, cdb, do, di: (wire.append(bytes(cdb)), (0, None))[1]
    iscsi.BACKEND = lambda lun, task, do, di: (wire.append(bytes(task.cdb)), (0, None))[1]
    transports = [("sgio", SCSIDevice("/dev/sgv")), ("iscsi", ISCSIDevice("iscsi://127.0.0.1/iqn.t:x/0", "iqn.i"))]
    for c in data["commands"]:
        module = c["module"].split(".")[-1]
        cls = cmds.get_class(c["module"], c["cls"])
        s = std.get(module, c["cls"])
        if s is None:
            res.tie_break("command class %s.%s has no entry in the oracle Std.cdbs" % (module, c["cls"]), {"class": c["cls"]})
            continue
        offered = [(sn, cmds.find_op(e, s["opname"])) for sn, e in sets.items()]
        offered = [(sn, op) for sn, op in offered if op is not None]
        cases = make_cases(c, s, rng, scale)
        for sn, op in offered:
            # every case on the first set that offers the command, a sample on the others
            mine = cases if sn == offered[0][0] else rng.sample(cases, min(len(cases), 6 * scale))
            for kw0 in mine:
                kw = finalize_kwargs(c, kw0, rng)
                try:
                    cmd = cls(op, **kw)
                    impl = bytes(cmd.cdb)
                    err = None
                except Exception as e:   # the constructor must accept every in-range tuple
                    impl = None
                    err = type(e).__name__
                shown = {k: (v if isinstance(v, (int, type(None))) else ("<%d bytes>" % len(v) if isinstance(v, (bytes, bytearray)) else "<dict>")) for k, v in kw.items()}
                if impl is not None and len(cmd.datain) + len(cmd.dataout) <= (1 << 16):
                    for tname, tdev in transports:
                        del wire[:]
                        try:
                            tdev.execute(cmd)
                            onwire = list(wire)
                        except Exception as e:      # noqa
                            onwire = "raises " + type(e).__name__
                        res.count("CDB on the wire, " + tname)
                        if onwire != [impl] or bytes(cmd.cdb) != impl:
                            res.violation("cls=%s transport=%s wire" % (c["cls"], tname),
                                          "%s over %s: what reaches the transport (%s) is not the CDB of the command (%s)" % (
                                              c["cls"], tname, onwire if isinstance(onwire, str) else [w.hex() for w in onwire], impl.hex()),
                                          {"class": c["cls"], "module": module, "set": sn, "args": shown, "transport": tname, "cdb": impl.hex()})
                res.case((module, c["cls"], sn, tuple(sorted(shown.items(), key=str))),
                         {"class": c["cls"], "set": sn, "args": shown, "cdb": impl.hex() if impl else err})
                res.count("class " + c["cls"])
                res.count("set " + sn)
                envd = {k: (v if isinstance(v, (int, bytes, bytearray, type(None))) else None) for k, v in kw.items()}
                dolen = len(cmd.dataout) if (impl is not None and cmd.dataout is not None) else 0
                for comp in c.get("computed", []):
                    envd[comp] = bytes(cmd.dataout) if impl is not None and cmd.dataout is not None else b""
                reqs.append((module, c, sn, op, s, kw, shown, impl, err,
                             "stdcdb %s %s %d %s" % (module, c["cls"], dolen, cmds.enc_env(envd)),
                             "build %s %s %s %s %s" % (module, c["cls"], sn, s["opname"], cmds.enc_env(envd))))
    sgio.BACKEND, iscsi.BACKEND = None, None
    reps_std = drv.batch([r[9] for r in reqs])
    reps_mod = drv.batch([r[10] for r in reqs])
    for (module, c, sn, op, s, kw, shown, impl, err, _, _), rstd, rmod in zip(reqs, reps_std, reps_mod):
        want = bytes.fromhex(rstd[4:]) if rstd.startswith("ok x") else None
        if want is None:
            res.tie_break("oracle could not encode %s (%s)" % (c["cls"], rstd), {"class": c["cls"], "args": shown})
            continue
        if impl is None:
            res.violation("cls=%s set=%s raises=%s" % (c["cls"], sn, err),
                          "%s cannot be constructed on %s for in-range arguments (%s)" % (c["cls"], sn, err),
                          {"class": c["cls"], "module": module, "set": sn, "args": shown, "exception": err})
            continue
        if impl != want:
            bad = "length" if len(impl) != len(want) else ",".join(
                f["name"] for f in s["fields"] if cmds.std_field_value(impl, f) != cmds.std_field_value(want, f)) or "reserved-bits"
            res.violation("cls=%s set=%s field=%s" % (c["cls"], sn, bad),
                          "%s on %s: CDB differs from the standard's format in %s" % (c["cls"], sn, bad),
                          {"class": c["cls"], "module": module, "set": sn, "opcode_object": str(op), "args": shown,
                           "cdb": impl.hex(), "standard": want.hex(),
                           "replay": "construct %s(%s, **args) and compare cmd.cdb" % (c["cls"], op)})
            continue
        mod_cdb = None
        if rmod.startswith("ok cdb="):
            mod_cdb = bytes.fromhex(rmod.split(" ")[1][5:])
        if mod_cdb != impl:
            if not c["normal"] and rmod.startswith("err"):
                res.count("non-normal constructor: model compared on success only")
                continue
            res.tie_break("Cmd.build disagrees with the real constructor of %s" % c["cls"],
                          {"class": c["cls"], "set": sn, "args": shown, "model": rmod, "implementation": impl.hex()})
    res.assumptions += [
        "domain: every argument fits the width of its standard field; tuples whose buffers would exceed %d bytes are not executed on the real code (covered by the theorem + the regenerated wiring)" % CAP,
        "ELEMENT TYPE CODE of READ ELEMENT STATUS is checked on its three low bits (all assigned codes)",
    ]
