#!/usr/bin/env python3
"""Entry point of every registered check:  python3 tools/check.py <ID> --tier quick|thorough

exit 0  property held on everything explored (KNOWN-FINDING lines possible)
exit 1  VIOLATION property=<ID> replay=<path>[ no-failing-input-found]
exit 2  infrastructure failure (never a violation)
"""
import argparse
import importlib
import os
import sys
import traceback
from pathlib import Path

HERE = Path(__file__).resolve().parent
PY = "/venv/bin/python"


def main():
    ap = argparse.ArgumentParser()
    ap.add_argument("pid")
    ap.add_argument("--tier", default=os.environ.get("VERIF_TIER", "quick"), choices=["quick", "thorough"])
    ap.add_argument("--replay", default=None)
    ap.add_argument("--no-build", action="store_true", help="development: skip regenerate/build/audit")
    a = ap.parse_args()
    if os.path.realpath(sys.executable) != os.path.realpath(PY) and os.path.exists(PY):
        os.execv(PY, [PY, str(Path(__file__).resolve())] + sys.argv[1:])
    sys.path.insert(0, str(HERE))
    os.chdir(str(HERE.parent))
    from lib import common
    from lib.common import Infra, Result

    pid = a.pid.upper()
    res = Result(pid, a.tier)
    try:
        mod = importlib.import_module("props." + pid.lower())
        replaying = None
        if a.replay:
            # a replay file names the signature of a violation (or, for a "nofail" file, the theorems / correspondence
            # that no longer check) and the PRNG seed of the run that found it: the check is run again with that seed
            # and the replay reproduces when the same signature is reported again.  Nothing is written.
            import json
            replaying = json.loads(Path(a.replay).read_text())
            if replaying.get("property") not in (None, pid):
                raise Infra("replay file is for property %s" % replaying.get("property"))
            if "seed" in replaying:
                common.SEED = int(replaying["seed"])
        build_ok = True
        if not a.no_build:
            with common.build_lock():
                if getattr(mod, "NEEDS_GEN", True):
                    from lib import gen
                    gen.regenerate()
                targets = list(mod.TARGETS)
                # model + driver first: a failure here is infrastructure, not a broken obligation
                ok, failed, out = common.lake_build(["driver"])
                if not ok:
                    raise Infra("driver/model does not build:\n" + out[-4000:])
                ok, failed, out = common.lake_build(targets)
                thms = []
                for m in targets:
                    p = common.LEAN / (m.replace(".", "/") + ".lean")
                    thms += [n for _, n in common.theorems_in(p)]
                res.obligations = len(thms)
                res.theorems = thms
                if ok:
                    names, bad = common.audit(targets)
                    if bad:
                        raise Infra("axiom/sorry audit failed:\n" + "\n".join(bad))
                    res.discharged = len(names)
                    if a.tier == "thorough":
                        rc, o = common.run(["lake", "env", "leanchecker"] + targets, cwd=common.LEAN, timeout=3000)
                        if rc != 0:
                            raise Infra("leanchecker rejected the compiled modules:\n" + o[-3000:])
                        res.notes.append("leanchecker re-checked: " + " ".join(targets))
                else:
                    build_ok = False
                    not_ours = [f for f in failed if not any(f.startswith(t.replace("ScsiVerif.", "").replace("Props.", "")) or t.split(".")[-1] in f for t in targets)]
                    res.failed_theorems = failed
                    res.discharged = max(0, len(thms) - len(failed))
                    res.notes.append("lake build failed: " + "; ".join(failed))
                    res.notes.append(out[-1500:])
                res.checker_cmd = "cd lean && lake build " + " ".join(targets) + " && lake env lean <#print axioms audit>"
        else:
            res.obligations = res.discharged = 1
            res.notes.append("development run: build/audit skipped")
        common.bootstrap_repo()
        try:
            # a runaway allocation in the code under test becomes a MemoryError inside this process instead of the
            # kernel killing the check (which would look like a broken check, exit 137)
            import resource
            lim = 24 << 30
            resource.setrlimit(resource.RLIMIT_AS, (lim, lim))
        except Exception:
            pass
        # tie between the hand-written model and the code: functions whose source differs from the recorded
        # fingerprints (tools/fingerprints.json) are where model and code may have drifted apart — the correspondence
        # then runs at failing-input-search volume.  A changed source is not a violation by itself.
        drift = []
        try:
            from lib import fingerprint
            drift = fingerprint.changed_for(pid, str(common.REPO))
        except Exception as e:       # the tie is an aid; its failure must not break the check
            res.notes.append("fingerprint comparison failed: %s" % e)
        if drift:
            res.notes.append("source differs from the fingerprints recorded with the model (%d): %s — correspondence escalated" % (
                len(drift), "; ".join(drift[:12])))
        else:
            res.notes.append("source fingerprints of the functions this property's model mirrors: unchanged")
        # a check that does not finish is an infrastructure failure (exit 2), never silence: the watchdog thread ends the
        # process even when the main thread spins inside the code under test
        import threading
        budget = 1800 if a.tier == "quick" else 4 * 3600

        stall = float(os.environ.get("VERIF_STALL", "150" if a.tier == "quick" else "600"))
        main_id = threading.main_thread().ident
        repo_prefix = str(common.REPO) + os.sep

        def watchdog():
            """samples the main thread: one and the same call from the harness into the code under test that is still
            running — with the innermost Python frame inside the code under test, i.e. not waiting on a stand-in or on the
            Lean driver — after `stall` seconds is reported as a violation (the implementation does not terminate on an
            input inside the property's domain); the overall budget is an infrastructure failure"""
            import time as _t
            t0 = _t.time()
            key, since = None, _t.time()
            while True:
                _t.sleep(1.0)
                now = _t.time()
                if now - t0 > budget:
                    print("INFRA-ERROR property=%s: the check did not finish within %d s (the code under test or the harness does not terminate)" % (pid, budget), flush=True)
                    os._exit(2)
                fr = sys._current_frames().get(main_id)
                stack = []
                while fr is not None:
                    stack.append(fr)
                    fr = fr.f_back
                stack.reverse()                      # outermost first
                first_repo = next((i for i, f in enumerate(stack) if f.f_code.co_filename.startswith(repo_prefix)), None)
                inner_in_repo = bool(stack) and stack[-1].f_code.co_filename.startswith(repo_prefix)
                if first_repo is None or first_repo == 0 or not inner_in_repo:
                    key = None
                    continue
                caller = stack[first_repo - 1]
                k = (id(caller), caller.f_lasti, id(stack[first_repo]))
                if k != key:
                    key, since = k, now
                    continue
                if now - since >= stall:
                    where = ["%s:%d %s" % (f.f_code.co_filename.replace(repo_prefix, ""), f.f_lineno, f.f_code.co_name) for f in stack[first_repo:]][-6:]
                    res.violation("implementation does not terminate at %s" % where[0].split(":")[0],
                                  "a call into the implementation (from %s:%d) has been running for %d s with the innermost frame inside the implementation: %s" % (
                                      os.path.basename(caller.f_code.co_filename), caller.f_lineno, int(now - since), " > ".join(where)),
                                  {"stalled_for_s": int(now - since), "stack": where, "called_from": "%s:%d" % (caller.f_code.co_filename, caller.f_lineno)})
                    try:
                        code = res.finish()
                    except Exception:
                        code = 1
                    sys.stdout.flush()
                    os._exit(code or 1)
        wd = threading.Thread(target=watchdog, daemon=True)
        wd.start()
        try:
            mod.run(res, a.tier, build_ok and not drift)
        except Infra:
            raise
        except common.Stalled as e:
            res.violation("implementation does not terminate", "a call into the implementation did not return within its wall-clock budget (%s)" % e,
                          {"stalled": str(e), "traceback": traceback.format_exception(type(e), e, e.__traceback__)[-6:]})
        except Exception as e:
            # an exception escaping from the code under test on an input inside the property's domain
            tb = traceback.extract_tb(e.__traceback__)
            inner = [f for f in tb if str(f.filename).startswith(str(common.REPO))]
            if not inner:
                raise
            where = "%s:%d" % (inner[-1].filename.replace(str(common.REPO) + "/", ""), inner[-1].lineno)
            res.violation("implementation raises %s at %s" % (type(e).__name__, where.split(":")[0]),
                          "the implementation raised %s (%s) on an input inside the property's domain, at %s" % (type(e).__name__, e, where),
                          {"exception": type(e).__name__, "message": str(e)[:300], "where": where,
                           "traceback": traceback.format_exception(type(e), e, e.__traceback__)[-6:]})
        if replaying is not None:
            sig = replaying.get("signature")
            if sig is not None:
                hit = [v for v in res.violations if v[0] == sig]
                if hit:
                    print("REPRODUCED property=%s signature=%r: %s" % (pid, sig, hit[0][1][:300]))
                    sys.exit(1)
                print("NOT-REPRODUCED property=%s signature=%r (%d other violation(s) in this run)" % (pid, sig, len(res.violations)))
                sys.exit(0)
            if res.failed_theorems or res.broken_tie:
                print("REPRODUCED property=%s: theorems no longer checked %s; correspondence breaks %d" % (
                    pid, res.failed_theorems[:5], len(res.broken_tie)))
                sys.exit(1)
            print("NOT-REPRODUCED property=%s: every theorem and correspondence checks" % pid)
            sys.exit(0)
        sys.exit(res.finish())
    except Infra as e:
        print("INFRA-ERROR property=%s: %s" % (pid, e))
        sys.exit(2)
    except SystemExit:
        raise
    except Exception:
        traceback.print_exc()
        print("INFRA-ERROR property=%s: unexpected exception in the checker" % pid)
        sys.exit(2)


if __name__ == "__main__":
    main()
