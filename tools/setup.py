#!/usr/bin/env python3
"""MANIFEST.setup_cmd: regenerate Gen from /repo's working tree, build every Lean module and the driver (offline)."""
import os
import sys
from pathlib import Path

HERE = Path(__file__).resolve().parent
PY = "/venv/bin/python"
if os.path.realpath(sys.executable) != os.path.realpath(PY) and os.path.exists(PY):
    os.execv(PY, [PY, str(Path(__file__).resolve())] + sys.argv[1:])
sys.path.insert(0, str(HERE))
from lib import common, gen  # noqa

with common.build_lock():
    data, changed = gen.regenerate()
    print("regenerated Gen (changed: %s)" % (changed or "nothing"))
    ok, failed, out = common.lake_build(["driver"])
    if not ok:
        print(out[-4000:])
        sys.exit(2)
    props = sorted("ScsiVerif.Props." + f.stem for f in (common.LEAN / "ScsiVerif" / "Props").glob("*.lean"))
    ok, failed, out = common.lake_build(["ScsiVerif"] + props)
    print(out[-1500:])
    # a failing property module is reported by the property's own check, not by setup
    print("setup done (library build %s)" % ("ok" if ok else "has failing property modules: %s" % failed))
sys.exit(0)
