"""A virtual OS for pyscsi.pyscsi.scsi_device: `open` and `os.stat` are injected as module globals,
so SCSIDevice (open / close / get_inode / _is_replugged / execute) runs unmodified against device
nodes whose inode numbers, disappearance and close() failures the harness controls."""
import types


class FakeFile:
    def __init__(self, vos, path, ino, mode, buffering):
        self.vos = vos
        self.path = path
        self.ino = ino
        self.mode = mode
        self.buffering = buffering
        self.is_open = True
        self.close_calls = 0
        self.id = len(vos.handles)

    def close(self):
        self.close_calls += 1
        if self.vos.close_fail:
            # the descriptor is gone either way on a real OS; the error is reported to the caller
            self.is_open = False
            raise OSError(5, "injected close failure")
        self.is_open = False

    def fileno(self):
        return 1000 + self.id


class VirtualOS:
    def __init__(self):
        self.nodes = {}
        self.handles = []
        self.next_ino = 100
        self.close_fail = False
        self.log = []
        vos = self

        class _Stat:
            def __init__(self, ino):
                self.st_ino = ino

        def stat(path, *a, **k):
            if path not in vos.nodes:
                raise FileNotFoundError(2, "No such file or directory", path)
            return _Stat(vos.nodes[path])

        self.osmod = types.SimpleNamespace(stat=stat)

    def mknod(self, path):
        self.nodes[path] = self.next_ino
        self.next_ino += 1
        return self.nodes[path]

    def replug(self, path):
        return self.mknod(path)

    def unplug(self, path):
        self.nodes.pop(path, None)

    def open(self, path, mode="r", buffering=-1, *a, **k):
        if path not in self.nodes:
            self.log.append(("open-fail", path))
            raise FileNotFoundError(2, "No such file or directory", path)
        h = FakeFile(self, path, self.nodes[path], mode, buffering)
        self.handles.append(h)
        self.log.append(("open", path, mode, h.id))
        return h

    def install(self):
        import pyscsi.pyscsi.scsi_device as sd
        sd.open = self.open
        sd.os = self.osmod
        return sd
