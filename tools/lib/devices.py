"""Device objects for facade-level checks: a recording device (plain object, no binding needed)."""


class RecordingDevice:
    """what the facade needs of a device: .opcodes, .devicetype, execute(cmd, en_raw_sense)"""

    def __init__(self, opcodes, responder=None, fail=None):
        self.opcodes = opcodes
        self.devicetype = None
        self.calls = []          # (cmd object, cdb bytes, dataout id, datain id, en_raw_sense)
        self.responder = responder
        self.fail = fail
        self.closed = 0

    def execute(self, cmd, en_raw_sense=False):
        self.calls.append((cmd, bytes(cmd.cdb), cmd.dataout, cmd.datain, en_raw_sense))
        if self.fail is not None:
            raise self.fail
        if self.responder is not None:
            self.responder(cmd)

    def close(self):
        self.closed += 1


def attach(opcodes, blocksize=0, responder=None):
    """SCSI facade over a recording device, with the given command set selected"""
    from pyscsi.pyscsi.scsi import SCSI
    dev = RecordingDevice(opcodes, responder)
    s = SCSI(dev, blocksize)
    dev.opcodes = opcodes
    del dev.calls[:]
    return s, dev
