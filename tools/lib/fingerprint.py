"""Source fingerprints of the library's functions (tie between the hand-written Lean model and the code).

The Lean model under lean/ScsiVerif/Model mirrors the Python functions as they were when the model was written;
`tools/fingerprints.json` records a hash of the normalised AST (no docstrings, no positions) of every function and
class body of `pyscsi` at that time.  A check compares the working tree with that record: functions that differ are
listed in the evidence and make the check run its correspondence at failing-input-search volume, because that is
where model and code may have drifted apart.  A difference is never a violation by itself."""
import ast
import hashlib
import json
from pathlib import Path

BASE = Path(__file__).resolve().parents[1] / "fingerprints.json"

# which source files matter to which property (prefixes of the path below pyscsi/)
RELEVANT = {
    "C01": ["pyscsi/scsi_cdb_", "pyscsi/scsi_command", "utils/converter", "pyscsi/scsi_enum_command", "pyscsi/scsi_opcode"],
    "C02": ["pyscsi/scsi_cdb_", "pyscsi/scsi_command", "utils/converter"],
    "C03": ["pyscsi/scsi_cdb_", "pyscsi/scsi_command", "utils/converter", "pyiscsi/iscsi_device", "pyscsi/scsi_device"],
    "C04": ["pyscsi/scsi_cdb_", "utils/converter", "pyscsi/scsi_enum_"],
    "C05": ["pyscsi/scsi_cdb_modesense", "pyscsi/scsi_cdb_persistentreserve", "pyscsi/scsi_cdb_extended_copy", "utils/converter", "pyscsi/scsi_command"],
    "C06": ["pyscsi/scsi_cdb_", "utils/converter"],
    "C07": ["pyscsi/scsi_device", "pyiscsi/iscsi_device", "pyscsi/scsi.py", "pyscsi/scsi_sense", "pyscsi/scsi_exception"],
    "C08": ["pyscsi/scsi_sense", "pyscsi/scsi_exception", "pyscsi/scsi_enum_sense", "utils/converter", "pyscsi/scsi_device", "pyiscsi/iscsi_device"],
    "C09": ["pyscsi/scsi_cdb_", "pyscsi/scsi_command", "utils/converter"],
    "C10": ["utils/converter"],
    "C11": ["pyscsi/scsi_cdb_", "utils/converter", "pyscsi/scsi_sense"],
    "C12": ["pyscsi/scsi_cdb_read", "pyscsi/scsi_cdb_write", "pyscsi/scsi_cdb_inquiry", "pyscsi/scsi_cdb_synchronize", "pyscsi/scsi.py",
            "pyscsi/scsi_device", "pyiscsi/iscsi_device", "utils/converter", "pyscsi/scsi_command"],
    "C13": ["pyscsi/scsi.py", "utils/converter", "pyscsi/scsi_command", "pyscsi/scsi_enum_command"],
    "C14": ["pyscsi/scsi_enum_command", "pyscsi/scsi_opcode", "pyscsi/scsi_command", "pyscsi/scsi.py", "utils/enum"],
    "C15": ["pyscsi/scsi_device", "utils/__init__", "pyscsi/scsi.py"],
    "C16": ["pyscsi/scsi.py", "pyscsi/scsi_cdb_inquiry", "pyscsi/scsi_device", "pyiscsi/iscsi_device", "pyscsi/scsi_enum_command"],
    "C17": ["pyscsi/scsi_cdb_", "pyscsi/scsi_command", "pyscsi/scsi.py"],
    "C18": ["utils/enum", "pyscsi/scsi_opcode", "pyscsi/scsi_enum_command"],
    "C19": ["utils/__init__", "pyscsi/scsi_device", "pyiscsi/iscsi_device", "pyscsi/scsi.py"],
}


def _strip(node):
    for n in ast.walk(node):
        body = getattr(n, "body", None)
        if isinstance(body, list) and body and isinstance(body[0], ast.Expr) and isinstance(getattr(body[0], "value", None), ast.Constant) \
                and isinstance(body[0].value.value, str):
            n.body = body[1:] or [ast.Pass()]
    return node


def _text(node):
    # normalised source text (comments, docstrings, blank lines and layout removed) — the same under every Python version
    return ast.unparse(_strip(node))


def _hash(node):
    return hashlib.sha1(_text(node).encode()).hexdigest()[:16]


def scan(repo):
    """{ 'pyscsi/scsi_cdb_read10.py:Read10.__init__': hash, …, '<file>:<module level>': hash }"""
    out = {}
    root = Path(repo) / "pyscsi"
    for f in sorted(root.rglob("*.py")):
        rel = str(f.relative_to(root))
        try:
            tree = ast.parse(f.read_text())
        except SyntaxError:
            out[rel + ":<unparsable>"] = "x"
            continue
        toplevel = []
        for node in tree.body:
            if isinstance(node, (ast.FunctionDef, ast.AsyncFunctionDef)):
                out["%s:%s" % (rel, node.name)] = _hash(node)
            elif isinstance(node, ast.ClassDef):
                rest = []
                for sub in node.body:
                    if isinstance(sub, (ast.FunctionDef, ast.AsyncFunctionDef)):
                        out["%s:%s.%s" % (rel, node.name, sub.name)] = _hash(sub)
                    else:
                        rest.append(sub)
                out["%s:%s.<class body>" % (rel, node.name)] = hashlib.sha1("\n".join(_text(x) for x in rest).encode()).hexdigest()[:16]
            elif not isinstance(node, (ast.Import, ast.ImportFrom)):
                toplevel.append(node)
        out["%s:<module level>" % rel] = hashlib.sha1("\n".join(_text(x) for x in toplevel).encode()).hexdigest()[:16]
    return out


def changed_for(pid, repo):
    """functions relevant to property `pid` whose source differs from the recorded baseline (sorted names)"""
    if not BASE.exists():
        return []
    base = json.loads(BASE.read_text())["functions"]
    now = scan(repo)
    pref = RELEVANT.get(pid, [""])
    out = []
    for k in sorted(set(base) | set(now)):
        if base.get(k) != now.get(k) and any(k.startswith(p) or ("/" + p.split("/")[-1]) in ("/" + k) for p in pref):
            out.append(k + (" (new)" if k not in base else " (removed)" if k not in now else ""))
    return out
