"""Helpers shared by the command-level checks: the library's classes, opcode objects, the oracle's
field lists (asked from the Lean driver), structured argument generators."""
import importlib
import inspect
import random

from . import common, gen
from .common import hx


def gen_data():
    return gen.load()


def get_class(module, cls):
    return getattr(importlib.import_module(module if "." in module else "pyscsi.pyscsi." + module), cls)


def opcode_sets():
    ec = importlib.import_module("pyscsi.pyscsi.scsi_enum_command")
    return {n: getattr(ec, n) for n in ("spc", "sbc", "ssc", "smc", "mmc")}


def find_op(enum, opname):
    """the facade's lookup: attribute, or first key with the 2-char suffix (get_opcode)"""
    if len(opname) == 2:
        for k in enum.keys:
            if k[len(k) - 2:] == opname:
                return getattr(enum, k)
        return None
    return getattr(enum, opname, None) if opname in enum.keys else None


class StdInfo:
    """the oracle's description of every command, fetched from the Lean driver"""

    def __init__(self, drv, commands):
        lines = ["stdfields %s %s" % (c["module"].split(".")[-1], c["cls"]) for c in commands]
        reps = drv.batch(lines)
        self.info = {}
        for c, r in zip(commands, reps):
            key = (c["module"].split(".")[-1], c["cls"])
            if not r.startswith("ok "):
                self.info[key] = None
                continue
            _, opname, opcode, rest = r.split(" ", 3)
            fields = []
            for f in rest.split(";"):
                name, byte, msb, width, kind, arg = f.split("|")
                fields.append({"name": name, "byte": int(byte), "msb": int(msb), "width": int(width),
                               "kind": kind, "arg": arg})
            self.info[key] = {"opname": opname, "opcode": int(opcode), "fields": fields}

    def get(self, module, cls):
        return self.info.get((module, cls))


def std_field_value(cdb, f):
    """what a conformant target reads (python twin of Std.fieldOf, used only to name the failing field)"""
    L = len(cdb)
    lsb = 8 * (L - 1 - f["byte"]) + f["msb"] + 1 - f["width"]
    return (int.from_bytes(bytes(cdb), "big") >> lsb) & ((1 << f["width"]) - 1)


def interesting_values(rng, width, n_random=2):
    vals = {0, (1 << width) - 1}
    for b in range(width):
        vals.add(1 << b)
    for _ in range(n_random):
        vals.add(rng.getrandbits(width))
    return sorted(vals)


def enc_env(env):
    parts = []
    for k, v in env.items():
        if v is None:
            parts.append("%s=n" % k)
        elif isinstance(v, bool):
            parts.append("%s=%s" % (k, "t" if v else "f"))
        elif isinstance(v, int):
            parts.append("%s=i%d" % (k, v))
        else:
            parts.append("%s=%s" % (k, hx(v)))
    return "E" + ",".join(parts)
