"""Response decoders / builders of the library, by a stable name, plus the text form of nested
Python values used on the line protocol (see lean/ScsiVerif/Driver/PVText.lean)."""
import importlib

from .common import hx


def to_text(v):
    if v is None:
        return "n"
    if isinstance(v, bool):
        return "i%d" % int(v)
    if isinstance(v, int):
        return "i%d" % v
    if isinstance(v, (bytes, bytearray)):
        return hx(v)
    if isinstance(v, str):
        return "s" + v.encode("utf-8").hex()
    if isinstance(v, (list, tuple)):
        return "[" + ",".join(to_text(x) for x in v) + "]"
    if isinstance(v, dict):
        return "{" + ",".join("%s=%s" % (k, to_text(x)) for k, x in v.items()) + "}"
    raise TypeError(type(v))


def parse_text(s):
    """-> nested python structure (dicts unordered) from the model's text"""
    pos = [0]

    def val():
        c = s[pos[0]]
        if c == "n":
            pos[0] += 1
            return None
        if c in "ixs":
            j = pos[0] + 1
            while j < len(s) and s[j] not in ",]}":
                j += 1
            body = s[pos[0] + 1:j]
            pos[0] = j
            if c == "i":
                return int(body)
            if c == "x":
                return bytes.fromhex(body)
            return bytes.fromhex(body).decode("utf-8")
        if c == "[":
            pos[0] += 1
            out = []
            if s[pos[0]] == "]":
                pos[0] += 1
                return out
            while True:
                out.append(val())
                if s[pos[0]] == ",":
                    pos[0] += 1
                    continue
                pos[0] += 1
                return out
        if c == "{":
            pos[0] += 1
            out = {}
            if s[pos[0]] == "}":
                pos[0] += 1
                return out
            while True:
                j = s.index("=", pos[0])
                k = s[pos[0]:j]
                pos[0] = j + 1
                out[k] = val()
                if s[pos[0]] == ",":
                    pos[0] += 1
                    continue
                pos[0] += 1
                return out
        raise ValueError("bad text at %d: %r" % (pos[0], s[pos[0]:pos[0] + 20]))
    return val()


def normalize(v):
    """python result -> comparable structure (bytearray -> bytes, bool -> int, int keys -> str)"""
    if isinstance(v, bool):
        return int(v)
    if isinstance(v, (bytes, bytearray)):
        return bytes(v)
    if isinstance(v, (list, tuple)):
        return [normalize(x) for x in v]
    if isinstance(v, dict):
        return {str(k): normalize(x) for k, x in v.items()}
    return v


def decoders():
    """name -> (callable(data: bytearray, **args), list of argument dicts to try)"""
    m = lambda n: importlib.import_module("pyscsi.pyscsi." + n)
    pri = m("scsi_cdb_persistentreservein")
    cd_args = []
    for est in (0, 1, 2, 3, 4, 5):
        for mcsb in (0, 2, 3, 0x1F, 0x0B, 0x1D):
            for c2ei, scsb in ((0, 0), (1, 2), (2, 4)):
                cd_args.append({"lba": 7, "tl": 2, "est": est, "mcsb": mcsb, "c2ei": c2ei, "scsb": scsb})
    return {
        "getlbastatus": (m("scsi_cdb_getlbastatus").GetLBAStatus.unmarshall_datain, [{}]),
        "reportluns": (m("scsi_cdb_report_luns").ReportLuns.unmarshall_datain, [{}]),
        "prreadkeys": (pri.PersistentReserveInReadKeys.unmarshall_datain, [{}]),
        "readcapacity10": (m("scsi_cdb_readcapacity10").ReadCapacity10.unmarshall_datain, [{}]),
        "readcapacity16": (m("scsi_cdb_readcapacity16").ReadCapacity16.unmarshall_datain, [{}]),
        "prreadreservation": (pri.PersistentReserveInReadReservation.unmarshall_datain, [{}]),
        "prreportcapabilities": (pri.PersistentReserveInReportCapabilities.unmarshall_datain, [{}]),
        "readdiscinformation": (m("scsi_cdb_readdiscinformation").ReadDiscInformation.unmarshall_datain, [{}]),
        "inquiry": (m("scsi_cdb_inquiry").Inquiry.unmarshall_datain, [{"evpd": 0}, {"evpd": 1}]),
        "modesense6": (m("scsi_cdb_modesense6").ModeSense6.unmarshall_datain, [{}]),
        "modesense10": (m("scsi_cdb_modesense10").ModeSense10.unmarshall_datain, [{}]),
        "readelementstatus": (m("scsi_cdb_readelementstatus").ReadElementStatus.unmarshall_datain, [{}]),
        "reporttargetportgroups": (m("scsi_cdb_report_target_port_groups").ReportTargetPortGroups.unmarshall_datain, [{}]),
        "prreadfullstatus": (pri.PersistentReserveInReadFullStatus.unmarshall_datain, [{}]),
        "readcd": (m("scsi_cdb_readcd").ReadCd.unmarshall_datain, cd_args),
        "reportpriority": (m("scsi_cdb_report_priority").ReportPriority.unmarshall_datain, [{}]),
    }
