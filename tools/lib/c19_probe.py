"""Run in a fresh interpreter: `python c19_probe.py <repo> <has_sgio 0|1> <has_iscsi 0|1>`.
With exactly the requested stand-in bindings importable (the others genuinely absent), import every
module of the library, build / encode / decode every command, drive the facade over a plain device
object.  Prints one JSON object."""
import importlib
import inspect
import json
import pkgutil
import sys
from pathlib import Path

repo, has_sgio, has_iscsi = sys.argv[1], sys.argv[2] == "1", sys.argv[3] == "1"
stubs = Path(__file__).resolve().parents[1] / "stubs"
sys.path.insert(0, repo)
if has_sgio:
    sys.path.insert(1, str(stubs / "pkg_sgio"))
if has_iscsi:
    sys.path.insert(1, str(stubs / "pkg_iscsi"))
out = {"config": [has_sgio, has_iscsi], "import_failures": [], "modules": 0, "commands": 0, "command_failures": [],
       "facade_failures": [], "flags": {}}
for name in ("sgio", "iscsi"):
    try:
        importlib.import_module(name)
        present = True
    except ImportError:
        present = False
    out["flags"]["importable_" + name] = present
import pyscsi  # noqa
assert str(Path(pyscsi.__file__).resolve()).startswith(str(Path(repo).resolve()))
mods = {}
for pkgname in ("pyscsi", "pyscsi.pyscsi", "pyscsi.utils", "pyscsi.pyiscsi"):
    try:
        pkg = importlib.import_module(pkgname)
    except Exception as e:
        out["import_failures"].append([pkgname, type(e).__name__])
        continue
    for mi in pkgutil.iter_modules(pkg.__path__):
        name = pkgname + "." + mi.name
        try:
            mods[name] = importlib.import_module(name)
            out["modules"] += 1
        except Exception as e:
            out["import_failures"].append([name, type(e).__name__ + ": " + str(e)[:80]])
try:
    from pyscsi.pyscsi.scsi_device import _has_sgio
    from pyscsi.pyiscsi.iscsi_device import _has_iscsi
    out["flags"]["_has_sgio"] = _has_sgio
    out["flags"]["_has_iscsi"] = _has_iscsi
except Exception as e:
    out["import_failures"].append(["flags", type(e).__name__])
# every command class: construct on the first set that offers an opcode by a plausible name, encode/decode its CDB
try:
    from pyscsi.pyscsi.scsi_command import SCSICommand
    import pyscsi.pyscsi.scsi_enum_command as ec
    from pyscsi.pyscsi.scsi import SCSI
    classes = []
    for name, mod in mods.items():
        for attr, val in vars(mod).items():
            if inspect.isclass(val) and val.__module__ == name and issubclass(val, SCSICommand) and val is not SCSICommand:
                classes.append(val)
    samples = {"blocksize": 512, "lba": 1, "tl": 1, "nb": 1, "data": bytearray(512), "page_code": 0x0A, "xfer": 1, "source": 2,
               "dest": 3, "dest1": 3, "dest2": 4, "elements": 2, "acode": 0, "start": 0, "num": 1, "numblks": 1, "data_type": 0,
               "service_action": 0, "protocal": 4, "t_length": 0, "byte_block": 0, "t_dir": 0, "t_type": 0, "off_line": 0,
               "fetures": 0, "count": 0, "command": 0xE5}
    for cls in classes:
        sig = inspect.signature(cls.__init__)
        kw = {}
        for pn, p in list(sig.parameters.items())[2:]:
            if p.default is inspect.Parameter.empty and p.kind == p.POSITIONAL_OR_KEYWORD:
                kw[pn] = samples.get(pn, 0)
        if cls.__name__ in ("ModeSelect6", "ModeSelect10"):
            kw["data"] = {"medium_type": 0, "device_specific_parameter": 0,
                          "mode_pages": [{"ps": 0, "spf": 0, "page_code": 0x0A, "swp": 1}]}
        op = None
        for setname in ("sbc", "spc", "smc", "mmc", "ssc"):
            e = getattr(ec, setname)
            for k in e.keys:
                oc = getattr(e, k)
                try:
                    c = cls(oc, **kw)
                    d = cls.unmarshall_cdb(c.cdb)
                    if bytes(cls.marshall_cdb(d)) == bytes(c.cdb) and "opcode" in d:
                        op = oc
                        break
                except Exception:
                    continue
            if op:
                break
        out["commands"] += 1
        if op is None:
            out["command_failures"].append(cls.__module__.split(".")[-1] + "." + cls.__name__)

    class Dev:
        opcodes = ec.spc
        devicetype = None

        def __init__(self):
            self.n = 0

        def execute(self, cmd, en_raw_sense=False):
            self.n += 1

        def close(self):
            pass

    dev = Dev()
    s = SCSI(dev, 512)
    dev.opcodes = ec.sbc
    for meth, args in (("testunitready", ()), ("inquiry", ()), ("read10", (0, 1)), ("readcapacity16", ()),
                       ("write16", (0, 1, bytearray(512))), ("reportluns", ()), ("modesense6", (0x0A,))):
        before = dev.n
        try:
            getattr(s, meth)(*args)
            if dev.n != before + 1:
                out["facade_failures"].append([meth, "sent %d" % (dev.n - before)])
        except Exception as e:
            out["facade_failures"].append([meth, type(e).__name__])
    # a plain device that fails: its own exception (and the built-in kinds) must reach the caller unchanged in every
    # configuration — the facade must not need a binding that is not installed, on the failure path either
    class NotReady(Exception):
        pass

    class FailingDev(Dev):
        def execute(self, cmd, en_raw_sense=False):
            self.n += 1
            if self.fail is not None:
                raise self.fail

    fdev = FailingDev()
    fdev.fail = None
    fs = SCSI(fdev, 512)
    fdev.opcodes = ec.sbc
    for boom in (NotReady("not ready"), RuntimeError("x"), OSError(5, "io"), ValueError("v")):
        for meth, args in (("testunitready", ()), ("read10", (0, 1)), ("inquiry", ())):
            fdev.fail = boom
            before = fdev.n
            try:
                getattr(fs, meth)(*args)
                out["facade_failures"].append([meth, "device error %s swallowed" % type(boom).__name__])
            except Exception as e:
                if e is not boom or fdev.n != before + 1:
                    out["facade_failures"].append([meth, "device raised %s, caller got %s: %s" % (type(boom).__name__, type(e).__name__, str(e)[:60])])
    # the probe INQUIRY of an attach may fail too
    fdev2 = FailingDev()
    fdev2.fail = NotReady("unit attention")
    try:
        SCSI(fdev2, 512)
        out["facade_failures"].append(["attach", "device error swallowed"])
    except Exception as e:
        if e is not fdev2.fail:
            out["facade_failures"].append(["attach", "device raised NotReady, caller got %s: %s" % (type(e).__name__, str(e)[:60])])
except Exception as e:
    out["import_failures"].append(["command sweep", type(e).__name__ + ": " + str(e)[:100]])
print(json.dumps(out))
