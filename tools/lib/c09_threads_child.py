"""child of the C09 harness: two real threads under the deterministic line scheduler, every schedule
in a freshly forked process whose caches are cold (no command has been built in it yet).
stdin: pickled job {A, B: class descriptions, ks: preemption points}; stdout: pickled
{k: {tid: (status, value)}} plus the number of traced lines of A's solo run."""
import base64
import os
import pickle
import sys
from pathlib import Path

sys.path.insert(0, str(Path(__file__).resolve().parents[1]))
from lib import cmds, common  # noqa: E402

FILES = ("scsi_command.py", "converter.py")


def main():
    job = pickle.loads(base64.b64decode(sys.stdin.read()))
    common.bootstrap_repo()
    from props.c09 import Sched
    sets = cmds.opcode_sets()

    def body(p):
        cls = cmds.get_class(p["module"], p["cls"])
        op = cmds.find_op(sets[p["set"]], p["opname"])

        def fn():
            inst = cls(op, **p["kw"])
            d = cls.unmarshall_cdb(inst.cdb)
            return bytes(inst.cdb), d, bytes(cls.marshall_cdb(d))
        return fn

    def in_fork(fn):
        r, w = os.pipe()
        pid = os.fork()
        if pid == 0:
            os.close(r)
            try:
                out = fn()
            except BaseException as e:      # noqa
                out = ("crash", repr(e))
            with os.fdopen(w, "wb") as f:
                pickle.dump(out, f)
            os._exit(0)
        os.close(w)
        with os.fdopen(r, "rb") as f:
            data = f.read()
        os.waitpid(pid, 0)
        return pickle.loads(data) if data else ("crash", "no output")

    def solo_len():
        s = Sched(FILES)
        _, st = s.run({0: body(job["A"])}, lambda steps, alive: 0)
        return st.get(0, 0)
    na = in_fork(solo_len)
    out = {"na": na, "runs": {}}
    ks = job["ks"] if job["ks"] else list(range(0, na + 1, job.get("step", 1)))
    def start(fn):
        r, w = os.pipe()
        pid = os.fork()
        if pid == 0:
            os.close(r)
            try:
                out = fn()
            except BaseException as e:      # noqa
                out = ("crash", repr(e))
            with os.fdopen(w, "wb") as f:
                pickle.dump(out, f)
            os._exit(0)
        os.close(w)
        return pid, r

    def finish(pid, r):
        with os.fdopen(r, "rb") as f:
            data = f.read()
        os.waitpid(pid, 0)
        return pickle.loads(data) if data else ("crash", "no output")

    def one(k):
        sch = Sched(FILES)

        def pick(steps, alive):
            if 0 in alive and steps.get(0, 0) < k:
                return 0
            if 1 in alive:
                return 1
            return 0
        results, _ = sch.run({0: body(job["A"]), 1: body(job["B"])}, pick)
        return results

    ks = [k for k in ks if k <= na]
    width = 12                                   # schedules in flight (each in its own freshly forked, cold process)
    for i in range(0, len(ks), width):
        running = [(k, start(lambda k=k: one(k))) for k in ks[i:i + width]]
        for k, (pid, r) in running:
            out["runs"][k] = finish(pid, r)
    sys.stdout.write(base64.b64encode(pickle.dumps(out)).decode())


if __name__ == "__main__":
    main()
