"""Translator (tie 1): regenerate lean/ScsiVerif/Gen/*.lean from the working tree of the repo.

T1 (import based): every `*_bits` layout table, the five opcode sets with their service actions,
status codes, the sense tables, constructor signatures with evaluated defaults.
T2 (AST based): constructor normal forms (guards, buffer lengths, dataout override, build_cdb wiring),
facade methods (opcode source, class constructed, argument forwarding, execute/unmarshall order).

Run in a subprocess with /venv/bin/python so that a fresh import of the tree under test is used.
"""
import ast
import importlib
import inspect
import json
import os
import pkgutil
import subprocess
import sys
import textwrap
from pathlib import Path

from . import common

GEN = common.LEAN / "ScsiVerif" / "Gen"


# ---------------------------------------------------------------------------------------------
# extraction (runs inside the subprocess)
# ---------------------------------------------------------------------------------------------

def is_layout(d):
    if not isinstance(d, dict) or not d:
        return False
    for k, v in d.items():
        if not isinstance(k, str) or not isinstance(v, (list, tuple)):
            return False
        if len(v) == 2 and all(isinstance(x, int) and not isinstance(x, bool) for x in v):
            continue
        if len(v) == 3 and v[0] in ("b", "w", "dw") and isinstance(v[1], int) and isinstance(v[2], int):
            continue
        return False
    return True


def layout_json(d):
    out = []
    for k, v in d.items():
        if len(v) == 2:
            out.append([k, "m", v[0], v[1]])
        else:
            out.append([k, "b", {"b": 1, "w": 2, "dw": 4}[v[0]], v[1], v[2]])
    return out


class NotNormal(Exception):
    pass


def tr_expr(node, ctx):
    """Python AST expression -> Expr JSON (first-order fragment); raises NotNormal otherwise"""
    if isinstance(node, ast.Constant):
        if node.value is None:
            return ["none"]
        if isinstance(node.value, bool):
            return ["lit", int(node.value)]
        if isinstance(node.value, int) and node.value >= 0:
            return ["lit", node.value]
        raise NotNormal("constant %r" % (node.value,))
    if isinstance(node, ast.Name):
        if node.id in ctx["subst"]:
            return ctx["subst"][node.id]
        if node.id in ctx["params"] or node.id in ctx["computed"]:
            return ["param", node.id]
        raise NotNormal("name %s" % node.id)
    if isinstance(node, ast.Attribute):
        # self.opcode.value | opcode.value
        chain = []
        n = node
        while isinstance(n, ast.Attribute):
            chain.append(n.attr)
            n = n.value
        if isinstance(n, ast.Name):
            chain.append(n.id)
        chain = list(reversed(chain))
        if chain in (["self", "opcode", "value"], ["opcode", "value"]):
            return ["opcodeValue"]
        if len(chain) >= 3 and chain[-2] == "serviceaction" and chain[:-2] in (["self", "opcode"], ["opcode"]):
            return ["sa", chain[-1]]
        if chain == ["self", "dataout"] and "$dataout" in ctx["computed"]:
            return ["param", "$dataout"]
        raise NotNormal("attribute " + ".".join(chain))
    if isinstance(node, ast.BinOp):
        ops = {ast.Mult: "mul", ast.Add: "add", ast.BitAnd: "band", ast.RShift: "shr", ast.LShift: "shl"}
        for t, name in ops.items():
            if isinstance(node.op, t):
                return [name, tr_expr(node.left, ctx), tr_expr(node.right, ctx)]
        raise NotNormal("binop")
    if isinstance(node, ast.UnaryOp) and isinstance(node.op, ast.Not):
        return ["not", tr_expr(node.operand, ctx)]
    if isinstance(node, ast.BoolOp):
        name = "and" if isinstance(node.op, ast.And) else "or"
        vals = [tr_expr(v, ctx) for v in node.values]
        r = vals[-1]
        for v in reversed(vals[:-1]):
            r = [name, v, r]
        return r
    if isinstance(node, ast.Compare) and len(node.ops) == 1:
        l, r = tr_expr(node.left, ctx), tr_expr(node.comparators[0], ctx)
        if isinstance(node.ops[0], ast.Eq):
            return ["eq", l, r]
        if isinstance(node.ops[0], ast.NotEq):
            return ["not", ["eq", l, r]]
        if isinstance(node.ops[0], ast.IsNot) and r == ["none"]:
            return ["isNotNone", l]
        raise NotNormal("compare")
    if isinstance(node, ast.IfExp):
        return ["ite", tr_expr(node.test, ctx), tr_expr(node.body, ctx), tr_expr(node.orelse, ctx)]
    if isinstance(node, ast.Call):
        if isinstance(node.func, ast.Name) and node.func.id == "len" and len(node.args) == 1:
            return ["len", tr_expr(node.args[0], ctx)]
        if isinstance(node.func, ast.Name) and node.func.id == "bytearray" and len(node.args) == 1 and not node.keywords:
            return ["zeros", tr_expr(node.args[0], ctx)]
        # Class.static_helper(arg): inline a pure single-parameter static helper of the same class
        if isinstance(node.func, ast.Attribute) and isinstance(node.func.value, ast.Name) \
                and node.func.value.id == ctx["cls"] and len(node.args) == 1 and not node.keywords:
            h = ctx["helpers"].get(node.func.attr)
            if h is not None:
                return tr_helper(h, tr_expr(node.args[0], ctx), ctx)
        raise NotNormal("call")
    raise NotNormal(type(node).__name__)


def tr_helper(fn, arg, ctx):
    """static helper of the form:  result = 0; result += e …; return result  -> sum expression"""
    a = fn.args
    if len(a.args) != 1 or a.vararg or a.kwarg or a.kwonlyargs:
        raise NotNormal("helper signature")
    p = a.args[0].arg
    body = [s for s in fn.body if not (isinstance(s, ast.Expr) and isinstance(s.value, ast.Constant))]
    sub = dict(ctx, subst={p: arg}, params=[], computed=[])
    acc = None
    accname = None
    for s in body:
        if isinstance(s, ast.Assign) and len(s.targets) == 1 and isinstance(s.targets[0], ast.Name) and acc is None:
            accname = s.targets[0].id
            acc = tr_expr(s.value, sub)
        elif isinstance(s, ast.AugAssign) and isinstance(s.op, ast.Add) and isinstance(s.target, ast.Name) \
                and s.target.id == accname:
            acc = ["add", acc, tr_expr(s.value, sub)]
        elif isinstance(s, ast.Return) and isinstance(s.value, ast.Name) and s.value.id == accname:
            return acc
        else:
            raise NotNormal("helper body")
    raise NotNormal("helper without return")


EXC = {"MissingBlocksizeException": "missingBlocksize", "OpcodeException": "opcodeException",
       "ValueError": "valueError", "TypeError": "typeError", "KeyError": "keyError",
       "NotImplementedError": "notImplemented", "CommandNotImplemented": "notImplemented"}


def exc_of(node):
    n = node
    if isinstance(n, ast.Call):
        n = n.func
    name = n.attr if isinstance(n, ast.Attribute) else (n.id if isinstance(n, ast.Name) else None)
    if name in EXC:
        return EXC[name]
    raise NotNormal("exception %s" % name)


def default_json(v):
    if v is inspect.Parameter.empty:
        return None
    if v is None:
        return ["none"]
    if isinstance(v, bool):
        return ["int", int(v)]
    if isinstance(v, int) and v >= 0:
        return ["int", v]
    if isinstance(v, (bytes, bytearray)):
        return ["bytes", list(v)]
    return ["opaque", repr(v)[:40]]


def class_ast(cls):
    src = textwrap.dedent(inspect.getsource(cls))
    tree = ast.parse(src)
    return tree.body[0]


def find_method(cnode, name):
    for s in cnode.body:
        if isinstance(s, ast.FunctionDef) and s.name == name:
            return s
    return None


def tr_constructor(cls, seen=None):
    """-> dict describing the constructor of `cls` (normal form when possible)"""
    cnode = class_ast(cls)
    init = find_method(cnode, "__init__")
    sig = inspect.signature(cls.__init__)
    params = []
    has_kwargs = False
    names = list(sig.parameters)
    for pn in names[2:]:
        p = sig.parameters[pn]
        if p.kind == p.VAR_KEYWORD:
            has_kwargs = True
            continue
        if p.kind == p.VAR_POSITIONAL:
            continue
        params.append([pn, default_json(p.default)])
    desc = {"cls": cls.__name__, "module": cls.__module__, "params": params, "kwargs": has_kwargs,
            "opcode_param": names[1] if len(names) > 1 else None,
            "normal": True, "why": "", "guards": [], "dataoutLen": ["lit", 0], "datainLen": ["lit", 0],
            "dataoutSet": None, "computed": [], "wiring": [], "wiring_ok": True,
            "layout": layout_json(cls._cdb_bits) if is_layout(cls._cdb_bits) else [],
            "layout_ok": is_layout(cls._cdb_bits)}
    if init is None:
        # inherited constructor
        for b in cls.__mro__[1:]:
            if "__init__" in vars(b) and b.__name__ != "SCSICommand":
                d = tr_constructor(b)
                d = dict(d, cls=cls.__name__, module=cls.__module__)
                return d
        desc["normal"] = False
        desc["why"] = "no constructor"
        return desc
    helpers = {s.name: s for s in cnode.body if isinstance(s, ast.FunctionDef)
               and any(isinstance(d, ast.Name) and d.id == "staticmethod" for d in s.decorator_list)}
    ctx = {"cls": cls.__name__, "params": [p[0] for p in params], "computed": [], "helpers": helpers, "subst": {}}
    body = [s for s in init.body if not (isinstance(s, ast.Expr) and isinstance(s.value, ast.Constant))]
    seen_init = False
    wiring_call = None

    def fail(why):
        if desc["normal"]:
            desc["normal"] = False
            desc["why"] = why

    for s in body:
        try:
            # if <cond>: raise X
            if isinstance(s, ast.If) and not s.orelse and len(s.body) == 1 and isinstance(s.body[0], ast.Raise) \
                    and not seen_init:
                desc["guards"].append([tr_expr(s.test, ctx), exc_of(s.body[0].exc)])
                continue
            # if <cond>: self.dataout = <expr>      (after init, no else)
            if isinstance(s, ast.If) and not s.orelse and len(s.body) == 1 and seen_init \
                    and isinstance(s.body[0], ast.Assign) and len(s.body[0].targets) == 1 \
                    and isinstance(s.body[0].targets[0], ast.Attribute) and s.body[0].targets[0].attr == "dataout" \
                    and isinstance(s.body[0].targets[0].value, ast.Name) and s.body[0].targets[0].value.id == "self" \
                    and desc["dataoutSet"] is None:
                desc["dataoutSet"] = ["ite", tr_expr(s.test, ctx), tr_expr(s.body[0].value, ctx),
                                      ["zeros", desc["dataoutLen"]]]
                continue
            if isinstance(s, ast.Expr) and isinstance(s.value, ast.Call) and isinstance(s.value.func, ast.Attribute) \
                    and s.value.func.attr == "__init__" and isinstance(s.value.func.value, ast.Name):
                base = s.value.func.value.id
                args = s.value.args
                if base == "SCSICommand":
                    if len(args) != 4:
                        raise NotNormal("SCSICommand.__init__ arity")
                    desc["dataoutLen"] = tr_expr(args[2], ctx)
                    desc["datainLen"] = tr_expr(args[3], ctx)
                    seen_init = True
                    continue
                # delegation to a parent constructor: inline it
                parent = [b for b in cls.__mro__[1:] if b.__name__ == base]
                if not parent:
                    raise NotNormal("delegation to unknown class")
                pd = tr_constructor(parent[0])
                if not pd["normal"]:
                    raise NotNormal("parent not normal")
                pnames = [p[0] for p in pd["params"]]
                actual = args[2:]
                sub = {}
                for i, pn in enumerate(pnames):
                    if i < len(actual):
                        sub[pn] = tr_expr(actual[i], ctx)
                    else:
                        dflt = pd["params"][i][1]
                        if dflt is None or dflt[0] not in ("int", "none"):
                            raise NotNormal("parent default")
                        sub[pn] = ["lit", dflt[1]] if dflt[0] == "int" else ["none"]

                def substitute(e):
                    if e[0] == "param":
                        return sub[e[1]]
                    return [e[0]] + [substitute(x) if isinstance(x, list) else x for x in e[1:]]

                desc["guards"] += [[substitute(g), x] for g, x in pd["guards"]]
                desc["dataoutLen"] = substitute(pd["dataoutLen"])
                desc["datainLen"] = substitute(pd["datainLen"])
                desc["dataoutSet"] = substitute(pd["dataoutSet"]) if pd["dataoutSet"] else None
                desc["wiring"] = [[k, substitute(e)] for k, e in pd["wiring"]]
                desc["layout"] = pd["layout"] if not ("_cdb_bits" in vars(cls)) else desc["layout"]
                seen_init = True
                wiring_call = "inherited"
                continue
            if isinstance(s, ast.Assign) and len(s.targets) == 1:
                t = s.targets[0]
                if isinstance(t, ast.Attribute) and isinstance(t.value, ast.Name) and t.value.id == "self":
                    if t.attr == "cdb" and isinstance(s.value, ast.Call) and isinstance(s.value.func, ast.Attribute) \
                            and s.value.func.attr == "build_cdb":
                        wiring_call = s.value
                        continue
                    if t.attr == "dataout":
                        if not seen_init:
                            raise NotNormal("dataout set before init")
                        try:
                            desc["dataoutSet"] = tr_expr(s.value, ctx)
                        except NotNormal:
                            # computed by a marshaller: opaque value supplied by the hand model
                            desc["computed"].append("$dataout")
                            ctx["computed"].append("$dataout")
                            desc["dataoutSet"] = ["param", "$dataout"]
                        continue
                    if t.attr.startswith("_"):
                        continue  # private attribute store (self._evpd = evpd)
                    raise NotNormal("attribute store self.%s" % t.attr)
                if isinstance(t, ast.Name) and not seen_init and isinstance(s.value, ast.Call):
                    # local computed by a call before init (parameter list marshalling)
                    desc["computed"].append(t.id)
                    ctx["computed"].append(t.id)
                    continue
            raise NotNormal("statement " + type(s).__name__)
        except NotNormal as e:
            fail(str(e))
    if not seen_init:
        fail("no SCSICommand.__init__ call")
    # wiring is extracted even when the rest of the body is not in normal form
    if wiring_call is None:
        for n in ast.walk(init):
            if isinstance(n, ast.Call) and isinstance(n.func, ast.Attribute) and n.func.attr == "build_cdb":
                wiring_call = n
    if wiring_call is None:
        desc["wiring_ok"] = False
        fail("no build_cdb call")
    elif wiring_call != "inherited":
        if wiring_call.args:
            desc["wiring_ok"] = False
            desc["wiring_why"] = "positional argument to build_cdb"
            fail("positional argument to build_cdb")
        w = []
        for kw in wiring_call.keywords:
            if kw.arg is None:
                desc["wiring_ok"] = False
                fail("**kwargs to build_cdb")
                continue
            try:
                w.append([kw.arg, tr_expr(kw.value, dict(ctx, params=ctx["params"] + ctx["computed"]))])
            except NotNormal as e:
                # locals of non-normal constructors
                try:
                    w.append([kw.arg, tr_expr(kw.value, dict(ctx, params=ctx["params"] + ["*"]))])
                except NotNormal:
                    desc["wiring_ok"] = False
                    fail("wiring expr: %s" % e)
        desc["wiring"] = w
    return desc


def tr_facade(scsi_mod):
    """facade methods of class SCSI -> list of dicts"""
    cnode = class_ast(scsi_mod.SCSI)
    out = []
    for fn in cnode.body:
        if not isinstance(fn, ast.FunctionDef) or fn.name.startswith("_") or fn.name in ("execute",):
            continue
        if any(isinstance(d, (ast.Name, ast.Attribute)) for d in fn.decorator_list):
            continue
        m = {"name": fn.name, "opcode": None, "classes": [], "executes": 0, "en_raw_sense": False,
             "unmarshall": None, "order_ok": True, "returns_cmd": False, "raises_value_error": False,
             "params": [a.arg for a in fn.args.args[1:]], "kwargs": fn.args.kwarg is not None,
             "calls": []}
        sig = inspect.signature(getattr(scsi_mod.SCSI, fn.name))
        m["defaults"] = {k: default_json(p.default) for k, p in list(sig.parameters.items())[1:]
                         if p.default is not inspect.Parameter.empty}
        events = []
        for n in ast.walk(fn):
            if isinstance(n, ast.Assign) and len(n.targets) == 1 and isinstance(n.targets[0], ast.Name):
                tgt = n.targets[0].id
                v = n.value
                if tgt == "opcode":
                    if isinstance(v, ast.Attribute):
                        m["opcode"] = ["name", v.attr]
                    elif isinstance(v, ast.Call) and isinstance(v.func, ast.Name) and v.func.id == "next":
                        inner = v.args[0]
                        if isinstance(inner, ast.Call) and getattr(inner.func, "id", "") == "get_opcode":
                            m["opcode"] = ["suffix", inner.args[1].value]
                if tgt == "cmd" and isinstance(v, ast.Call) and isinstance(v.func, ast.Name):
                    call = {"cls": v.func.id, "lineno": n.lineno,
                            "args": [ast.unparse(a) for a in v.args],
                            "keywords": [[k.arg, ast.unparse(k.value)] for k in v.keywords]}
                    # bind the call's arguments to the constructor's parameter names
                    try:
                        kls = getattr(scsi_mod, v.func.id)
                        pn = [p for p in inspect.signature(kls.__init__).parameters.values()][1:]
                        pos = [p.name for p in pn if p.kind in (p.POSITIONAL_ONLY, p.POSITIONAL_OR_KEYWORD)]
                        bound = []
                        for i, a in enumerate(v.args):
                            bound.append([pos[i] if i < len(pos) else "*", ast.unparse(a)])
                        for k in v.keywords:
                            bound.append([k.arg if k.arg else "**", ast.unparse(k.value)])
                        call["bound"] = bound
                        call["ctor_params"] = pos
                        call["ctor_kwargs"] = any(p.kind == p.VAR_KEYWORD for p in pn)
                    except Exception as e:
                        call["bound"] = None
                    m["classes"].append(v.func.id)
                    m["calls"].append(call)
                    events.append((n.lineno, "construct"))
            if isinstance(n, ast.Call) and isinstance(n.func, ast.Attribute):
                if n.func.attr == "execute" and isinstance(n.func.value, ast.Name) and n.func.value.id == "self":
                    m["executes"] += 1
                    events.append((n.lineno, "execute"))
                    for k in n.keywords:
                        if k.arg == "en_raw_sense" and isinstance(k.value, ast.Constant) and k.value.value:
                            m["en_raw_sense"] = True
                if n.func.attr == "unmarshall" and isinstance(n.func.value, ast.Name) and n.func.value.id == "cmd":
                    m["unmarshall"] = [[k.arg, ast.unparse(k.value)] for k in n.keywords]
                    events.append((n.lineno, "unmarshall"))
            if isinstance(n, ast.Return) and isinstance(n.value, ast.Name) and n.value.id == "cmd":
                m["returns_cmd"] = True
                events.append((n.lineno, "return"))
            if isinstance(n, ast.Raise):
                m["raises_value_error"] = True
        events.sort()
        kinds = [k for _, k in events]
        m["events"] = kinds
        out.append(m)
    return out


def extract():
    repo = sys.argv[2]
    sys.path.insert(0, repo)
    import pyscsi
    assert str(Path(pyscsi.__file__).resolve()).startswith(str(Path(repo).resolve())), pyscsi.__file__
    import pyscsi.pyscsi as pp
    mods = {}
    for pkgname in ("pyscsi.pyscsi", "pyscsi.utils", "pyscsi.pyiscsi"):
        pkg = importlib.import_module(pkgname)
        for mi in pkgutil.iter_modules(pkg.__path__):
            name = pkgname + "." + mi.name
            try:
                mods[name] = importlib.import_module(name)
            except Exception as e:  # recorded, C19 decides about it
                mods[name] = None
    from pyscsi.pyscsi.scsi_command import SCSICommand
    from pyscsi.utils.enum import Enum
    out = {"tables": [], "commands": [], "opcodes": {}, "enums": {}, "facade": [], "import_failures": []}
    seen_tables = set()
    classes = []
    for name, mod in sorted(mods.items()):
        if mod is None:
            out["import_failures"].append(name)
            continue
        short = name.split(".")[-1]
        for attr, val in vars(mod).items():
            if inspect.isclass(val) and val.__module__ == name:
                if issubclass(val, SCSICommand) and val is not SCSICommand:
                    classes.append(val)
                for a2, v2 in vars(val).items():
                    if is_layout(v2):
                        out["tables"].append({"owner": val.__name__, "module": short, "attr": a2,
                                              "layout": layout_json(v2)})
            elif is_layout(val) and not attr.startswith("__"):
                out["tables"].append({"owner": "", "module": short, "attr": attr, "layout": layout_json(val)})
            elif isinstance(val, Enum) or type(val) is Enum:
                pass
    # Enum-held layouts (MODESENSE6 / MODESENSE10) and plain enums
    for name, mod in sorted(mods.items()):
        if mod is None:
            continue
        short = name.split(".")[-1]
        for attr, val in vars(mod).items():
            if type(val) is Enum and getattr(val, "__module__", None) is not None:
                items = {}
                lay = {}
                for k in val.keys:
                    v = getattr(val, k)
                    if is_layout(v):
                        lay[k] = v
                    elif isinstance(v, int) and not isinstance(v, bool):
                        items[k] = v
                if lay:
                    for k, v in lay.items():
                        out["tables"].append({"owner": attr, "module": short, "attr": k, "layout": layout_json(v)})
                if items and all(isinstance(v, int) for v in items.values()):
                    out["enums"].setdefault(short, {})[attr] = [[k, v] for k, v in items.items()]
    # opcode sets
    ec = mods["pyscsi.pyscsi.scsi_enum_command"]
    for setname in ("spc", "sbc", "ssc", "smc", "mmc"):
        e = getattr(ec, setname)
        entries = []
        for k in e.keys:
            oc = getattr(e, k)
            sas = [[s, getattr(oc.serviceaction, s)] for s in oc.serviceaction.keys]
            entries.append({"key": k, "name": oc.name, "value": oc.value, "sas": sas})
        out["opcodes"][setname] = entries
    out["scsi_status"] = [[k, getattr(ec.SCSI_STATUS, k)] for k in ec.SCSI_STATUS.keys]
    # constructors
    for cls in sorted(set(classes), key=lambda c: (c.__module__, c.__name__)):
        try:
            d = tr_constructor(cls)
        except Exception as e:  # translator limitation: fall back to correspondence only
            d = {"cls": cls.__name__, "module": cls.__module__, "normal": False, "why": "translator: %r" % e,
                 "params": [], "kwargs": False, "guards": [], "dataoutLen": ["lit", 0], "datainLen": ["lit", 0],
                 "dataoutSet": None, "computed": [], "wiring": [], "wiring_ok": False,
                 "layout": layout_json(cls._cdb_bits) if is_layout(cls._cdb_bits) else [], "layout_ok": False}
        out["commands"].append(d)
    out["facade"] = tr_facade(mods["pyscsi.pyscsi.scsi"])
    # EXTENDED COPY code tables: {code: {"name":…, "size":…}} -> [[code, size or 0, name, description]]
    out["codes"] = []
    for cls in sorted(set(classes), key=lambda c: (c.__module__, c.__name__)):
        for a2, v2 in vars(cls).items():
            if a2.endswith("_codes") and isinstance(v2, dict) and v2 and all(isinstance(k, int) and isinstance(v, dict) for k, v in v2.items()):
                out["codes"].append({"owner": cls.__name__, "module": cls.__module__.split(".")[-1], "attr": a2,
                                     "entries": [[k, int(v.get("size", 0)), str(v.get("name", "")), str(v.get("description", ""))] for k, v in v2.items()]})
    # sense tables
    ss = mods["pyscsi.pyscsi.scsi_sense"]
    out["sense"] = {
        "sense_key_dict": [[k, v] for k, v in ss.sense_key_dict.items()] if hasattr(ss, "sense_key_dict") else [],
        "sense_ascq_dict": [[k, v] for k, v in ss.sense_ascq_dict.items()] if hasattr(ss, "sense_ascq_dict") else [],
        "vendor_lo": min(ss.vendor_specific_sense_asc), "vendor_hi": max(ss.vendor_specific_sense_asc),
        "vendor_same": list(ss.vendor_specific_sense_asc) == list(ss.vendor_specific_sense_ascq),
    }
    json.dump(out, sys.stdout)


# ---------------------------------------------------------------------------------------------
# emission
# ---------------------------------------------------------------------------------------------

def lean_str(s):
    return '"' + s.replace("\\", "\\\\").replace('"', '\\"') + '"'


def lean_ident(s):
    r = "".join(c if (c.isalnum() or c == "_") else "_" for c in s)
    if r and r[0].isdigit():
        r = "n" + r
    return r


def lean_layout(entries):
    parts = []
    for e in entries:
        if e[1] == "m":
            parts.append("(%s, .bits %d %d)" % (lean_str(e[0]), e[2], e[3]))
        else:
            parts.append("(%s, .blob %d %d %d)" % (lean_str(e[0]), e[2], e[3], e[4]))
    return "[" + ", ".join(parts) + "]"


def lean_expr(e):
    t = e[0]
    if t == "param":
        return "(.param %s)" % lean_str(e[1])
    if t == "lit":
        return "(.lit %d)" % e[1]
    if t == "none":
        return ".none"
    if t == "opcodeValue":
        return ".opcodeValue"
    if t == "sa":
        return "(.sa %s)" % lean_str(e[1])
    if t in ("mul", "add", "band", "shr", "shl", "eq", "and", "or"):
        return "(.%s %s %s)" % (t, lean_expr(e[1]), lean_expr(e[2]))
    if t in ("len", "not", "isNotNone", "zeros"):
        return "(.%s %s)" % (t, lean_expr(e[1]))
    if t == "ite":
        return "(.ite %s %s %s)" % (lean_expr(e[1]), lean_expr(e[2]), lean_expr(e[3]))
    raise ValueError(e)


def lean_pval(d):
    if d is None:
        return "none"
    if d[0] == "none":
        return "(some .none)"
    if d[0] == "int":
        return "(some (.int %d))" % d[1]
    if d[0] == "bytes":
        return "(some (.bytes [%s]))" % ", ".join(str(x) for x in d[1])
    return "(some .none)"   # opaque default: not usable by the model, flagged in `opaqueDefaults`


def emit(data):
    files = {}
    # ---- Tables
    lines = ["import ScsiVerif.Model.Conv", "/-! GENERATED by tools/lib/gen.py from the repo working tree. Do not edit. -/",
             "namespace Gen", "open Conv", ""]
    names = []
    used = set()
    for t in data["tables"]:
        base = lean_ident((t["owner"] or t["module"]) + ("" if t["attr"].startswith("_") else "_") + t["attr"])
        if t["module"].endswith("spc5"):
            base += "_spc5"
        n = base
        i = 2
        while n in used:
            n = "%s_%d" % (base, i)
            i += 1
        used.add(n)
        t["lean"] = n
        lines.append("def %s : Layout := %s" % (n, lean_layout(t["layout"])))
        names.append((n, t))
    lines.append("")
    lines.append("/-- every layout table found in the library: (owner, attribute, table) -/")
    lines.append("def allTables : List (String × String × Layout) := [")
    lines.append(",\n".join("  (%s, %s, %s)" % (lean_str(t["owner"] or t["module"]), lean_str(t["attr"]), n) for n, t in names))
    lines.append("]")
    lines.append("end Gen")
    files["Tables.lean"] = "\n".join(lines) + "\n"
    # ---- Opcodes
    lines = ["import ScsiVerif.Model.Command", "/-! GENERATED by tools/lib/gen.py from the repo working tree. Do not edit. -/",
             "namespace Gen", "open Cmd", ""]
    for setname, entries in data["opcodes"].items():
        lines.append("/-- (attribute key, OpCode) of `scsi_enum_command.%s` -/" % setname)
        lines.append("def %s : List (String × OpCode) := [" % setname)
        lines.append(",\n".join("  (%s, ⟨%s, %d, [%s]⟩)" % (
            lean_str(e["key"]), lean_str(e["name"]), e["value"],
            ", ".join("(%s, %d)" % (lean_str(s[0]), s[1]) for s in e["sas"])) for e in entries))
        lines.append("]")
        lines.append("")
    lines.append("def sets : List (String × List (String × OpCode)) := [(\"spc\", spc), (\"sbc\", sbc), (\"ssc\", ssc), (\"smc\", smc), (\"mmc\", mmc)]")
    lines.append("")
    lines.append("def scsiStatus : List (String × Nat) := [%s]" % ", ".join("(%s, %d)" % (lean_str(k), v) for k, v in data["scsi_status"]))
    lines.append("end Gen")
    files["Opcodes.lean"] = "\n".join(lines) + "\n"
    # ---- Commands
    lines = ["import ScsiVerif.Model.Command", "/-! GENERATED by tools/lib/gen.py from the repo working tree. Do not edit. -/",
             "namespace Gen", "open Cmd Conv", ""]
    cmdnames = []
    for c in data["commands"]:
        n = "cmd_" + lean_ident(c["cls"]) + ("_spc5" if c["module"].endswith("spc5") else "")
        c["lean"] = n
        cmdnames.append(n)
        lines.append("/-- %s.%s  normal=%s %s -/" % (c["module"], c["cls"], c["normal"], c.get("why", "")))
        lines.append("def %s : CmdDesc := {" % n)
        lines.append("  cls := %s," % lean_str(c["cls"]))
        plist = ["(%s, %s)" % (lean_str(p[0]), lean_pval(p[1])) for p in c["params"]]
        plist += ["(%s, none)" % lean_str(x) for x in c.get("computed", [])]   # values computed by a marshaller: supplied by the harness / hand model
        lines.append("  params := [%s]," % ", ".join(plist))
        lines.append("  guards := [%s]," % ", ".join("(%s, .%s)" % (lean_expr(g[0]), g[1]) for g in c["guards"]))
        norm = c["normal"]
        lines.append("  dataoutLen := %s," % (lean_expr(c["dataoutLen"]) if norm else "(.lit 0)"))
        lines.append("  datainLen := %s," % (lean_expr(c["datainLen"]) if norm else "(.lit 0)"))
        lines.append("  dataoutSet := %s," % (("some " + lean_expr(c["dataoutSet"])) if (norm and c["dataoutSet"]) else "none"))
        try:
            w = ", ".join("(%s, %s)" % (lean_str(k), lean_expr(e)) for k, e in c["wiring"])
        except ValueError:
            w = ""
        lines.append("  wiring := [%s]," % w)
        lines.append("  layout := %s }" % lean_layout(c["layout"]))
        lines.append("")
    lines.append("/-- (module, description, constructor is in normal form, wiring extracted) -/")
    lines.append("def commands : List (String × CmdDesc × Bool × Bool) := [")
    lines.append(",\n".join("  (%s, %s, %s, %s)" % (lean_str(c["module"].split(".")[-1]), c["lean"],
                                                  "true" if c["normal"] else "false",
                                                  "true" if c["wiring_ok"] else "false") for c in data["commands"]))
    lines.append("]")
    lines.append("end Gen")
    files["Commands.lean"] = "\n".join(lines) + "\n"
    # ---- Facade
    lines = ["/-! GENERATED by tools/lib/gen.py from the repo working tree. Do not edit. -/",
             "namespace Gen", "",
             "/-- where a facade method takes its operation code from -/",
             "inductive OpSrc | name (n : String) | suffix (s : String) | missing",
             "  deriving DecidableEq, Repr", "",
             "/-- one `cmd = Class(...)` statement: class, (constructor parameter, facade expression) pairs -/",
             "structure Call where",
             "  cls : String", "  bound : List (String × String)", "  ctorParams : List String", "  ctorKwargs : Bool",
             "  deriving DecidableEq, Repr", "",
             "structure FacadeMethod where",
             "  name : String", "  params : List String", "  kwargs : Bool", "  opcode : OpSrc", "  calls : List Call",
             "  events : List String   -- construct / execute / unmarshall / return, in source order",
             "  enRawSense : Bool", "  unmarshallArgs : List (String × String)", "  deriving DecidableEq, Repr", "",
             "def facade : List FacadeMethod := ["]
    fl = []
    for m in data["facade"]:
        if m["opcode"] is None:
            src = ".missing"
        elif m["opcode"][0] == "name":
            src = "(.name %s)" % lean_str(m["opcode"][1])
        else:
            src = "(.suffix %s)" % lean_str(m["opcode"][1])
        calls = []
        for c in m["calls"]:
            b = c.get("bound") or []
            calls.append("⟨%s, [%s], [%s], %s⟩" % (lean_str(c["cls"]),
                                                 ", ".join("(%s, %s)" % (lean_str(x[0]), lean_str(x[1])) for x in b),
                                                 ", ".join(lean_str(x) for x in c.get("ctor_params", [])),
                                                 "true" if c.get("ctor_kwargs") else "false"))
        um = m["unmarshall"] or []
        fl.append("  ⟨%s, [%s], %s, %s, [%s], [%s], %s, [%s]⟩" % (
            lean_str(m["name"]), ", ".join(lean_str(x) for x in m["params"]), "true" if m["kwargs"] else "false", src,
            ", ".join(calls), ", ".join(lean_str(e) for e in m["events"]),
            "true" if m["en_raw_sense"] else "false",
            ", ".join("(%s, %s)" % (lean_str(k if k else "**"), lean_str(v)) for k, v in um)))
    lines.append(",\n".join(fl))
    lines.append("]")
    lines.append("end Gen")
    files["Facade.lean"] = "\n".join(lines) + "\n"
    # ---- Enums (integer enumerations and EXTENDED COPY code tables)
    lines = ["/-! GENERATED by tools/lib/gen.py from the repo working tree. Do not edit. -/", "namespace Gen", ""]
    lines.append("/-- integer-valued `Enum` objects: (module, enum, [(name, value)]) -/")
    lines.append("def enums : List (String × String × List (String × Nat)) := [")
    rows = []
    for mod in sorted(data.get("enums", {})):
        for en in sorted(data["enums"][mod]):
            rows.append("  (%s, %s, [%s])" % (lean_str(mod), lean_str(en), ", ".join(
                "(%s, %d)" % (lean_str(k), v) for k, v in data["enums"][mod][en] if isinstance(v, int) and v >= 0)))
    lines.append(",\n".join(rows))
    lines.append("]")
    lines.append("")
    lines.append("/-- EXTENDED COPY code tables: (class, module, attribute, [(code, size)]) -/")
    lines.append("def codeTables : List (String × String × String × List (Nat × Nat)) := [")
    lines.append(",\n".join("  (%s, %s, %s, [%s])" % (lean_str(c["owner"]), lean_str(c["module"]), lean_str(c["attr"]),
                                                     ", ".join("(%d, %d)" % (e[0], e[1]) for e in c["entries"])) for c in data.get("codes", [])))
    lines.append("]")
    lines.append("end Gen")
    files["Enums.lean"] = "\n".join(lines) + "\n"
    # ---- Sense
    lines = ["/-! GENERATED by tools/lib/gen.py from the repo working tree. Do not edit. -/", "namespace Gen", ""]
    lines.append("def senseKeys : List (Nat × String) := [%s]" % ", ".join(
        "(%d, %s)" % (k, lean_str(v)) for k, v in data["sense"]["sense_key_dict"]))
    lines.append("")
    lines.append("/-- sense_ascq_dict: (asc*256+ascq, text) -/")
    lines.append("def senseAscq : List (Nat × String) := [")
    lines.append(",\n".join("  (%d, %s)" % (k, lean_str(v)) for k, v in data["sense"]["sense_ascq_dict"]))
    lines.append("]")
    lines.append("")
    lines.append("def vendorAscLo : Nat := %d" % data["sense"]["vendor_lo"])
    lines.append("def vendorAscHi : Nat := %d" % data["sense"]["vendor_hi"])
    lines.append("end Gen")
    files["Sense.lean"] = "\n".join(lines) + "\n"
    return files


def regenerate(repo=None):
    """run the extraction in a fresh interpreter, emit Gen/*.lean (only rewriting changed files)"""
    repo = str(repo or common.REPO)
    p = subprocess.run([common.PYTHON, "-c",
                        "import sys; sys.path.insert(0, %r); from lib import gen; gen.extract()" % str(common.VERIF / "tools"),
                        "x", repo], stdout=subprocess.PIPE, stderr=subprocess.PIPE, text=True,
                       cwd=str(common.VERIF / "tools"), timeout=300)
    if p.returncode != 0:
        raise common.Infra("translator failed:\n" + p.stderr[-3000:])
    data = json.loads(p.stdout)
    files = emit(data)
    changed = []
    for name, content in files.items():
        if common.write_if_changed(GEN / name, content):
            changed.append(name)
    (common.VERIF / "work").mkdir(exist_ok=True)
    (common.VERIF / "work" / "gen.json").write_text(json.dumps(data))
    return data, changed


def load():
    p = common.VERIF / "work" / "gen.json"
    return json.loads(p.read_text())
