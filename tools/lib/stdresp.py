"""Standards-conformant responses with known content, for C04/C06.

Every *block* (a fixed-size structure of the standards: a header, a descriptor, a mode page body, …)
is encoded by the Lean oracle `Std.Block.enc` through the driver (`blkenc`); GET LBA STATUS,
REPORT LUNS, PR IN READ KEYS, REPORT PRIORITY, REPORT TARGET PORT GROUPS, READ ELEMENT STATUS and MODE SENSE(6/10) responses
come whole from Lean (`stdenc`, the encoders the C04
theorems are stated about).  For the other structured formats this module concatenates Lean-encoded
blocks and fills in the standards' length fields (n-3, n-7, byte counts) — that composition is part
of the trusted harness (DESIGN.md section 8).

A generator returns (response bytes, expected), where `expected` is what a correct parser must
report: a nested dict/list of ints, bytes and strings.  Keys listed in HIDDEN are structural
(length fields) and need not be reported.
"""
import random

from .common import Infra, Interactive, hx

BYTES_KEYS = {
    "t10_vendor_identification", "product_identification", "product_revision_level",
    "last_session_lead_in_start_address", "last_possible_lead_out_start_address", "disc_bar_code",
}
# structural fields: a parser may or may not report them
HIDDEN = {"page_length", "byte_count", "mode_data_length", "block_descriptor_length", "element_descriptor_length",
          "additional_length", "length", "additional_desc_length", "designator_length", "disc_information_length",
          "target_port_count", "pr_type_mask"}


class Oracle:
    def __init__(self, seed):
        self.rng = random.Random(seed)
        self.drv = Interactive()
        r = self.drv.ask("blklist")
        if not r.startswith("ok "):
            raise Infra("driver: blklist -> " + r[:80])
        self.blocks = {}
        for b in r[3:].split("|"):
            name, base, ln, fields = b.split(":")
            fs = []
            for f in fields.split(";"):
                k, by, msb, w = f.split("/")
                fs.append((k, int(by), int(msb), int(w)))
            self.blocks[name] = (int(base), int(ln), fs)
        self.nreq = 0

    def close(self):
        self.drv.close()

    # ------------------------------------------------------------------ values
    def value(self, width):
        r = self.rng
        c = r.random()
        top = (1 << width) - 1
        if c < 0.12:
            return 0
        if c < 0.3:
            return top
        if c < 0.5:
            return 1 << r.randrange(width)
        if c < 0.6 and width > 8:
            return r.getrandbits(8)          # small value in a wide field
        return r.getrandbits(width)

    def vals(self, block, fixed=None, only=None):
        """random in-range values for every field of the block (or the fields in `only`, others 0)"""
        _, _, fs = self.blocks[block]
        v = {}
        for k, _, _, w in fs:
            v[k] = self.value(w) if (only is None or k in only) else 0
        if fixed:
            v.update(fixed)
        return v

    def enc(self, block, v):
        self.nreq += 1
        r = self.drv.ask("blkenc %s D%s" % (block, ",".join("%s=i%d" % kv for kv in v.items())))
        if not r.startswith("ok x"):
            raise Infra("driver: blkenc %s -> %s" % (block, r[:80]))
        return bytes.fromhex(r[4:])

    def stdenc(self, fmt, text):
        self.nreq += 1
        r = self.drv.ask("stdenc %s %s" % (fmt, text))
        if not r.startswith("ok x"):
            raise Infra("driver: stdenc %s -> %s" % (fmt, r[:80]))
        return bytes.fromhex(r[4:])

    def rbytes(self, n, printable=False):
        if printable:
            return bytes(self.rng.choice(b"ABCDEFGHIJKLMNOPQRSTUVWXYZ0123456789 -_.") for _ in range(n))
        return bytes(self.rng.getrandbits(8) for _ in range(n))

    def width(self, block, key):
        for k, _, _, w in self.blocks[block][2]:
            if k == key:
                return w
        raise KeyError(key)

    def report(self, block, v, drop=()):
        """what a parser reports for the block's values: byte-string fields as bytes"""
        out = {}
        for k, _, _, w in self.blocks[block][2]:
            if k in drop:
                continue
            out[k] = v[k].to_bytes(w // 8, "big") if k in BYTES_KEYS else v[k]
        return out

    def count(self):
        # small counts mostly; now and then enough descriptors to push every length field past 255
        return self.rng.choice([0, 1, 1, 2, 3, 5, self.rng.randint(0, 12), self.rng.randint(0, 12), 33, 40])

    def trailing(self):
        c = self.rng.random()
        if c < 0.4:
            return b""
        if c < 0.7:
            return bytes(self.rng.randint(1, 40))
        return self.rbytes(self.rng.randint(1, 40))

    # ------------------------------------------------------------------ flat formats
    def flat(self, block, fixed=None, drop=()):
        v = self.vals(block, fixed)
        return self.enc(block, v), self.report(block, v, drop)

    def readcapacity10(self):
        return self.flat("readcapacity10")

    def readcapacity16(self):
        return self.flat("readcapacity16")

    def inquiry_standard(self):
        short = self.rng.random() < 0.3
        fixed = {"clocking": 0, "qas": 0, "ius": 0} if short else None
        v = self.vals("inquiry_standard", fixed)
        v["additional_length"] = 31 if short else 53
        data = self.enc("inquiry_standard", v)
        return (data[:36] if short else data), self.report("inquiry_standard", v)

    VPD = {"vpd_b0": 0xB0, "vpd_b1": 0xB1, "vpd_b2": 0xB2, "vpd_b3": 0xB3, "vpd_86": 0x86}

    def vpd_flat(self, block):
        ln = self.blocks[block][1]
        return self.flat(block, {"page_code": self.VPD[block], "page_length": ln - 4}, drop=("page_length",))

    def vpd_serial(self):
        sn = self.rbytes(self.rng.choice([0, 1, 8, 20, 251, 255, 256, 300, 1000]), printable=True)
        v = self.vals("vpd_header", {"page_code": 0x80, "page_length": len(sn)})
        e = self.report("vpd_header", v, drop=("page_length",))
        e["unit_serial_number"] = sn
        return self.enc("vpd_header", v) + sn, e

    def vpd_supported(self):
        pages = bytes(sorted(self.rng.sample(range(256), self.rng.choice([0, 1, 3, 9]))))
        v = self.vals("vpd_header", {"page_code": 0, "page_length": len(pages)})
        e = self.report("vpd_header", v, drop=("page_length",))
        e["vpd_pages"] = list(pages)
        return self.enc("vpd_header", v) + pages, e

    # ------------------------------------------------------------------ VPD 83
    def designator(self):
        r = self.rng
        kind = r.choice(["vendor", "t10", "eui8", "eui12", "eui16", "naa2", "naa3", "naa5", "naa6", "relport", "tpg", "lug", "md5", "name"])
        self.last_des_txt = None          # the designator in the Lean oracle's terms (Std.Des), when it is one of those
        if kind == "vendor":
            b = self.rbytes(r.choice([1, 4, 17]))
            self.last_des_txt = "ty=i0,body=%s" % hx(b)
            return 0, b, {"vendor_specific": b}
        if kind == "t10":
            vid, rest = self.rbytes(8, True), self.rbytes(r.choice([0, 5, 16]), True)
            self.last_des_txt = "ty=i1,vid=%s,rest=%s" % (hx(vid), hx(rest))
            return 1, vid + rest, {"t10_vendor_id": vid, "vendor_specific_id": rest}
        if kind == "eui8":
            cid, ext = self.rbytes(3), self.rbytes(5)
            self.last_des_txt = "ty=i2,cid=i%d,ext=%s" % (int.from_bytes(cid, "big"), hx(ext))
            return 2, cid + ext, {"ieee_company_id": int.from_bytes(cid, "big"), "vendor_specific_extension_id": ext}
        if kind == "eui12":
            cid, ext, did = self.rbytes(3), self.rbytes(5), self.rbytes(4)
            self.last_des_txt = "ty=i2,cid=i%d,ext=%s,dir=%s" % (int.from_bytes(cid, "big"), hx(ext), hx(did))
            return 2, cid + ext + did, {"ieee_company_id": int.from_bytes(cid, "big"), "vendor_specific_extension_id": ext, "directory_id": did}
        if kind == "eui16":
            ie, cid, ext = self.rbytes(8), self.rbytes(3), self.rbytes(5)
            self.last_des_txt = "ty=i2,idext=%s,cid=i%d,ext=%s" % (hx(ie), int.from_bytes(cid, "big"), hx(ext))
            return 2, ie + cid + ext, {"identifier_extension": ie, "ieee_company_id": int.from_bytes(cid, "big"), "vendor_specific_extension_id": ext}
        if kind.startswith("naa"):
            n = int(kind[3])
            v = self.vals(kind, {"naa": n})
            self.last_des_txt = "ty=i3,code=i%d,v={%s}" % (n, ",".join("%s=i%d" % kv for kv in v.items()))
            return 3, self.enc(kind, v), dict(v)
        if kind in ("relport", "tpg", "lug"):
            blk = {"relport": "relport", "tpg": "tpgdes", "lug": "lugdes"}[kind]
            v = self.vals(blk)
            self.last_des_txt = "ty=i%d,v={%s}" % ({"relport": 4, "tpg": 5, "lug": 6}[kind], ",".join("%s=i%d" % kv for kv in v.items()))
            return {"relport": 4, "tpg": 5, "lug": 6}[kind], self.enc(blk, v), dict(v)
        if kind == "md5":
            b = self.rbytes(16)
            self.last_des_txt = "ty=i7,body=%s" % hx(b)
            return 7, b, {"md5_logical_identifier": b}
        s = self.rbytes(r.choice([4, 8, 23]), True)
        b = s + bytes((-len(s)) % 4 or 4)       # null-terminated, padded to a multiple of four
        self.last_des_txt = "ty=i8,body=%s" % hx(b)
        return 8, b, {"scsi_name_string": b}

    def vpd_devid(self):
        body = b""
        descs = []
        dtxt = []
        for _ in range(self.count()):
            ty, des, exp = self.designator()
            des_txt = self.last_des_txt
            piv = self.rng.getrandbits(1)
            assoc = self.rng.choice([0, 1, 2])
            v = self.vals("designation_descriptor", {"designator_type": ty, "designator_length": len(des), "piv": piv, "association": assoc})
            if not (piv and assoc in (1, 2)):
                v["protocol_identifier"] = 0      # reserved unless PIV is one and the association is a target port / device
            e = self.report("designation_descriptor", v)
            if not (piv and assoc in (1, 2)):
                del e["protocol_identifier"]
            e["designator"] = exp
            descs.append(e)
            body += self.enc("designation_descriptor", v) + des
            dtxt.append(None if des_txt is None else "{header={%s},%s}" % (",".join("%s=i%d" % kv for kv in v.items()), des_txt))
        if len(body) > 0xFFFF:
            return self.vpd_devid()
        v = self.vals("vpd_header", {"page_code": 0x83, "page_length": len(body)})
        e = self.report("vpd_header", v, drop=("page_length",))
        e["designator_descriptors"] = descs
        whole = self.enc("vpd_header", v) + body
        if all(t is not None for t in dtxt):
            # the whole page as the Lean oracle states it (Std.encVpd83, the encoder of
            # C04.vpd_device_identification_decodes)
            lean = self.stdenc("vpd83", "{header={%s},descs=[%s]}" % (",".join("%s=i%d" % kv for kv in v.items()), ",".join(dtxt)))
            if lean != whole:
                raise Infra("oracle inconsistency: Std.encVpd83 differs from the block-wise composition")
            whole = lean
        return whole, e

    # ------------------------------------------------------------------ MODE SENSE
    PAGES = [("mode_control", 0x0A, None, 12), ("mode_control_ext", 0x0A, 1, 32), ("mode_disconnect", 0x02, None, 16),
             ("mode_element_address", 0x1D, None, 20)]

    def mode_page(self):
        blk, pc, sub, ln = self.rng.choice(self.PAGES)
        ps = self.rng.getrandbits(1)
        body_v = self.vals(blk)
        if sub is None:
            hv = {"ps": ps, "spf": 0, "page_code": pc, "page_length": ln - 2}
            data = self.enc("mode_page0_header", hv)
        else:
            hv = {"ps": ps, "spf": 1, "page_code": pc, "sub_page_code": sub, "page_length": ln - 4}
            data = self.enc("mode_subpage_header", hv)
        body = self.enc(blk, body_v)
        self.last_page = (0 if sub is None else 1, dict(hv), body)
        data += body
        assert len(data) == ln
        e = {k: v for k, v in hv.items() if k != "page_length"}
        e.update(body_v)
        return data, e

    def modesense(self, ten, with_block_descriptors=True):
        """MODE SENSE(6|10) parameter data: header, optional block descriptors, one mode page"""
        page, pe = self.mode_page()
        nbd = self.rng.choice([0, 0, 1, 2] + ([33] if ten else [])) if with_block_descriptors else 0
        longlba = self.rng.getrandbits(1) if ten else 0
        bd = self.rbytes((16 if longlba else 8) * nbd)
        if ten:
            v = self.vals("mode_header10", {"longlba": longlba, "block_descriptor_length": len(bd), "mode_data_length": 6 + len(bd) + len(page)})
            hdr = self.enc("mode_header10", v)
            e = self.report("mode_header10", v, drop=("mode_data_length", "block_descriptor_length"))
        else:
            v = self.vals("mode_header6", {"block_descriptor_length": len(bd), "mode_data_length": 3 + len(bd) + len(page)})
            hdr = self.enc("mode_header6", v)
            e = self.report("mode_header6", v, drop=("mode_data_length", "block_descriptor_length"))
        e["mode_pages"] = [pe]
        # the whole response as the Lean oracle states it (Std.encModeSense6/10, the encoder of the C04 theorems)
        sub, phv, body = self.last_page
        txt = "{header={%s},bd=%s,page={sub=i%d,header={%s},body=%s}}" % (
            ",".join("%s=i%d" % kv for kv in v.items()), hx(bd), sub, ",".join("%s=i%d" % kv for kv in phv.items()), hx(body))
        whole = self.stdenc("modesense10" if ten else "modesense6", txt)
        if whole != hdr + bd + page:
            raise Infra("oracle inconsistency: Std.encModeSense differs from the block-wise composition")
        return whole, e

    # ------------------------------------------------------------------ header + fixed-size items (whole response from Lean)
    def getlbastatus(self):
        ds = [self.vals("lba_status_descriptor") for _ in range(self.count())]
        txt = "[" + ",".join("{" + ",".join("%s=i%d" % kv for kv in d.items()) + "}" for d in ds) + "]"
        return self.stdenc("getlbastatus", txt), {"lbas": ds}

    def reportluns(self):
        ds = [self.vals("lun") for _ in range(self.count())]
        txt = "[" + ",".join("{lun=i%d}" % d["lun"] for d in ds) + "]"
        return self.stdenc("reportluns", txt), {"luns": [{"lun%d" % i: d["lun"]} for i, d in enumerate(ds)]}

    def prreadkeys(self):
        gen = self.value(32)
        keys = [self.value(64) for _ in range(self.count())]
        txt = "{pr_generation=i%d,reservation_keys=[%s]}" % (gen, ",".join("i%d" % k for k in keys))
        return self.stdenc("prreadkeys", txt), {"pr_generation": gen, "reservation_keys": keys}

    # ------------------------------------------------------------------ PR IN
    def prreadreservation(self):
        if self.rng.random() < 0.3:
            v = self.vals("pr_header", {"additional_length": 0})
            return self.enc("pr_header", v), {"pr_generation": v["pr_generation"]}
        v = self.vals("prreadreservation", {"additional_length": 16})
        return self.enc("prreadreservation", v), self.report("prreadreservation", v, drop=("additional_length",))

    def prreportcapabilities(self):
        va = self.vals("prreportcapabilities", {"length": 8, "pr_type_mask": 0})
        vb = self.vals("prtypemask")
        a, b = self.enc("prreportcapabilities", va), self.enc("prtypemask", vb)
        e = self.report("prreportcapabilities", va, drop=("length", "pr_type_mask"))
        e["pr_type_mask"] = dict(vb)
        return bytes(x | y for x, y in zip(a, b)), e

    def transport_id(self):
        r = self.rng
        kind = r.choice(["fcp", "sbp", "srp", "iscsi0", "iscsi1", "sas"])
        if kind == "fcp":
            n = self.rbytes(8)
            return bytes([0]) + bytes(7) + n + bytes(8), {"tpid_format": 0, "protocol_id": 0, "n_port_name": n}
        if kind == "sbp":
            n = self.rbytes(8)
            return bytes([3]) + bytes(7) + n + bytes(8), {"tpid_format": 0, "protocol_id": 3, "eui64_name": n}
        if kind == "srp":
            n = self.rbytes(16)
            return bytes([4]) + bytes(7) + n, {"tpid_format": 0, "protocol_id": 4, "initiator_port_identifier": n}
        if kind == "sas":
            n = self.rbytes(8)
            return bytes([6]) + bytes(3) + n + bytes(12), {"tpid_format": 0, "protocol_id": 6, "sas_address": n}
        name = "iqn.2001-04.com.example:" + "".join(r.choice("abcdefghijklmnopqrstuvwxyz0123456789.-") for _ in range(r.randint(1, 24)))
        e = {"protocol_id": 5, "iscsi_name": name}
        if kind == "iscsi0":
            s = name
            e["tpid_format"] = 0
        else:
            isid = "".join(r.choice("0123456789abcdef") for _ in range(12))
            s = name + ",i,0x" + isid
            e["tpid_format"] = 1
            e["iscsi_initiator_session_id"] = isid
        raw = s.encode() + b"\0"
        raw += bytes((-len(raw)) % 4)
        if len(raw) < 20:
            raw += bytes(20 - len(raw))
        tid = bytes([(e["tpid_format"] << 6) | 5, 0]) + len(raw).to_bytes(2, "big") + raw
        self.last_tid_iscsi = (s.encode(), len(raw) - len(s)) if kind == "iscsi0" else None
        if kind == "iscsi0":
            # the Lean oracle's encoder of C04.transportId_iscsi_name (Std.encTidIscsiName): name, NUL padding
            lean = self.stdenc("tidiscsi", "{name=%s,pad=i%d}" % (hx(s.encode()), len(raw) - len(s)))
            if lean != tid:
                raise Infra("oracle inconsistency: Std.encTidIscsiName differs from the harness's composition")
        return tid, e

    def prreadfullstatus(self):
        gen = self.value(32)
        body = b""
        descs = []
        dtxt = []
        for _ in range(self.count()):
            self.last_tid_iscsi = None
            tid, te = self.transport_id()
            v = self.vals("full_status_descriptor", {"additional_desc_length": len(tid)})
            e = self.report("full_status_descriptor", v, drop=("additional_desc_length",))
            e["transport_id"] = te
            descs.append(e)
            body += self.enc("full_status_descriptor", v) + tid
            namekey = {0: "n_port_name", 3: "eui64_name", 4: "initiator_port_identifier", 6: "sas_address"}.get(te["protocol_id"])
            if namekey is None and self.last_tid_iscsi is not None:
                dtxt.append("{header={%s},name=%s,pad=i%d}" % (",".join("%s=i%d" % kv for kv in v.items()), hx(self.last_tid_iscsi[0]), self.last_tid_iscsi[1]))
                continue
            dtxt.append(None if namekey is None else "{header={%s},pid=i%d,tid={tpid_format=i%d,protocol_id=i%d,%s=%s}}" % (
                ",".join("%s=i%d" % kv for kv in v.items()), te["protocol_id"], te["tpid_format"], te["protocol_id"], namekey, hx(te[namekey])))
        whole = gen.to_bytes(4, "big") + len(body).to_bytes(4, "big") + body
        if all(t is not None for t in dtxt):
            # fixed-size and iSCSI-name TransportIDs: the whole response as the Lean oracle states it
            # (Std.encReadFullStatusAny, the encoder of C04.prReadFullStatus_decodes_any)
            lean = self.stdenc("prreadfullstatusany", "{gen=i%d,descs=[%s]}" % (gen, ",".join(dtxt)))
            if lean != whole:
                raise Infra("oracle inconsistency: Std.encReadFullStatusAny differs from the block-wise composition")
            whole = lean
        return whole, {"pr_generation": gen, "full_status": descs}

    # ------------------------------------------------------------------ READ DISC INFORMATION
    def discinfo(self):
        kind = self.rng.choice(["standard", "track", "pow"])
        if kind == "track":
            return self.flat("discinfo_track", {"disc_information_data_type": 1, "disc_information_length": 10})
        if kind == "pow":
            return self.flat("discinfo_pow", {"disc_information_data_type": 2, "disc_information_length": 14})
        v = self.vals("discinfo_standard", {"disc_information_data_type": 0, "disc_information_length": 32, "number_of_opc_tables": 0})
        e = self.report("discinfo_standard", v)
        for n in ("number_of_sessions", "first_track_number_in_last_session", "last_track_number_in_last_session"):
            e[n] = e.pop(n + "_msb") * 256 + e.pop(n + "_lsb")
        return self.enc("discinfo_standard", v), e

    # ------------------------------------------------------------------ REPORT TARGET PORT GROUPS
    def rtpg(self):
        ext = self.rng.getrandbits(1)
        body = b""
        groups = []
        for _ in range(self.count()):
            ports = [self.vals("target_port_descriptor") for _ in range(self.rng.choice([0, 1, 2, 4]))]
            v = self.vals("tpg_descriptor", {"target_port_count": len(ports)})
            e = self.report("tpg_descriptor", v)
            e["target_ports"] = [dict(p) for p in ports]
            groups.append(e)
            body += self.enc("tpg_descriptor", v) + b"".join(self.enc("target_port_descriptor", p) for p in ports)
        e = {"format_type": ext, "target_port_group_descriptors": groups}
        if ext:
            hv = self.vals("rtpg_ext_header", {"format_type": 1})
            e["implicit_transition_time"] = hv["implicit_transition_time"]
            body = self.enc("rtpg_ext_header", hv) + body
        # the whole response as the Lean oracle states it (Std.encRtpg / Std.encRtpgExt, the encoders of the C04 theorems)
        gtxt = ",".join("{%s,ports=[%s]}" % (",".join("%s=i%d" % (k, x) for k, x in g.items() if k != "target_ports"),
                                              ",".join("{relative_target_port_id=i%d}" % p["relative_target_port_id"] for p in g["target_ports"]))
                        for g in groups)
        txt = "{groups=[%s]%s}" % (gtxt, (",ext={format_type=i1,implicit_transition_time=i%d}" % hv["implicit_transition_time"]) if ext else "")
        whole = self.stdenc("rtpg", txt)
        if whole != len(body).to_bytes(4, "big") + body:
            raise Infra("oracle inconsistency: Std.encRtpg differs from the block-wise composition")
        return whole, e

    # ------------------------------------------------------------------ READ ELEMENT STATUS
    ELEMENT_BITS = {1: ("except", "full"), 2: ("except", "full", "access"), 4: ("except", "full", "access"),
                    3: ("oir", "cmc", "inenab", "exenab", "access", "except", "impexp", "full")}

    def readelementstatus(self):
        pages = b""
        pe = []
        ptxt = []
        for _ in range(self.rng.choice([0, 1, 1, 2, 3])):
            ety = self.rng.choice([1, 2, 3, 4])
            pv, av = self.rng.getrandbits(1), self.rng.getrandbits(1)
            # reserved / identifier bytes after the tags; the library's own builder always writes 4 (the canonical form C06 is about)
            extra = 4 if getattr(self, "canonical_only", False) else self.rng.choice([4, 4, 0, 12])
            edl = 12 + 36 * pv + 36 * av + extra
            descs = b""
            de = []
            dtxt = []
            for _ in range(self.rng.choice([0, 1, 2, 4])):
                flags = {"oir", "cmc", "inenab", "exenab", "access", "except", "impexp", "full"}
                v = self.vals("element_descriptor")
                for f in flags - set(self.ELEMENT_BITS[ety]):
                    v[f] = 0
                e = {k: x for k, x in v.items() if k not in flags or k in self.ELEMENT_BITS[ety]}
                d = self.enc("element_descriptor", v)
                pt = at = b""
                if pv:
                    pt = self.rbytes(36, True)
                    e["primary_volume_tag"] = pt
                    d += pt
                if av:
                    at = self.rbytes(36, True)
                    e["alternate_volume_tag"] = at
                    d += at
                d += bytes(extra)
                descs += d
                de.append(e)
                dtxt.append("{fields={%s},ptag=%s,atag=%s,rest=%s}" % (",".join("%s=i%d" % kv for kv in v.items()), hx(pt), hx(at), hx(bytes(extra))))
            hv = {"element_type": ety, "pvoltag": pv, "avoltag": av, "element_descriptor_length": edl, "byte_count": len(descs)}
            pages += self.enc("element_status_page", hv) + descs
            pe.append({"element_type": ety, "pvoltag": pv, "avoltag": av, "element_descriptors": de})
            ptxt.append("{header={%s},descs=[%s]}" % (",".join("%s=i%d" % kv for kv in hv.items()), ",".join(dtxt)))
        hv = self.vals("element_status_header", {"byte_count": len(pages)})
        e = self.report("element_status_header", hv, drop=("byte_count",))
        e["element_status_pages"] = pe
        # the whole response as the Lean oracle states it (Std.encReadElementStatus, the encoder of C04.readElementStatus_decodes)
        whole = self.stdenc("readelementstatus", "{header={%s},pages=[%s]}" % (",".join("%s=i%d" % kv for kv in hv.items()), ",".join(ptxt)))
        if whole != self.enc("element_status_header", hv) + pages:
            raise Infra("oracle inconsistency: Std.encReadElementStatus differs from the block-wise composition")
        return whole, e

    # ------------------------------------------------------------------ REPORT PRIORITY
    def reportpriority(self):
        body = b""
        descs = []
        for _ in range(self.count()):
            tid, _ = self.transport_id()
            v = self.vals("priority_descriptor", {"adlen": len(tid)})
            body += self.enc("priority_descriptor", v) + tid
            descs.append(dict(v, transport_id=tid))
        # the whole response as the Lean oracle states it (Std.encReportPriority, the encoder of the C04 theorem)
        txt = "[" + ",".join("{%s,transport_id=%s}" % (",".join("%s=i%d" % (k, x) for k, x in d.items() if k != "transport_id"), hx(d["transport_id"]))
                             for d in descs) + "]"
        whole = self.stdenc("reportpriority", txt)
        if whole != len(body).to_bytes(4, "big") + body:
            raise Infra("oracle inconsistency: Std.encReportPriority differs from the block-wise composition")
        return whole, {"priority_descriptors": descs}

    # ------------------------------------------------------------------ READ CD
    def readcd(self):
        """-> (data, expected, kwargs).  Sector types with every selected field (MMC-5 6.19): only the
        selections whose returned layout is unambiguous are generated."""
        r = self.rng
        est = r.choice([1, 2, 3, 4, 5])
        tl = r.choice([1, 1, 2, 3])
        lba = r.choice([0, 16, 123456])
        # (mcsb, parts) per expected sector type
        if est == 1:        # CD-DA: 2352 bytes of user data whatever is selected
            mcsb = r.choice([0x02, 0x1F])
            parts = ["data2352"]
        elif est == 2:      # mode 1
            mcsb, parts = r.choice([(0x02, ["data2048"]), (0x1F, ["sync", "header", "data2048", "ecc288"]),
                                    (0x06, ["header", "data2048"]), (0x16, ["sync", "header", "data2048"]), (0x04, ["header"])])
        elif est == 3:      # mode 2 formless
            mcsb, parts = r.choice([(0x02, ["data2336"]), (0x16, ["sync", "header", "data2336"]), (0x06, ["header", "data2336"])])
        elif est == 4:      # mode 2 form 1
            mcsb, parts = r.choice([(0x02, ["data2048"]), (0x1F, ["sync", "header", "subheader", "data2048", "ecc280"]),
                                    (0x0E, ["header", "subheader", "data2048"]), (0x0A, ["subheader", "data2048"])])
        else:               # mode 2 form 2
            mcsb, parts = r.choice([(0x02, ["data2324"]), (0x1F, ["sync", "header", "subheader", "data2324", "edc4"]),
                                    (0x0A, ["subheader", "data2324"])])
        c2ei = r.choice([0, 0, 1, 2])
        scsb = r.choice([0, 0, 2, 4])
        data = b""
        exp = {}
        for i in range(tl):
            e = {}
            for p in parts:
                if p == "sync":
                    b = bytes([0] + [0xFF] * 10 + [0])
                    e["sync"] = b
                    data += b
                elif p == "header":
                    v = self.vals("cd_sector_header")
                    e["sector-header"] = dict(v)
                    data += self.enc("cd_sector_header", v)
                elif p == "subheader":
                    sh = self.rbytes(4)
                    e["sector-subheader"] = [{"file-number": sh[0], "channel-number": sh[1], "sub-mode": sh[2], "data": sh}] * 2
                    data += sh + sh
                elif p.startswith("data"):
                    b = self.rbytes(int(p[4:]))
                    e["data"] = b
                    data += b
                elif p == "ecc288":
                    edc, z, pp, qp = self.rbytes(4), bytes(8), self.rbytes(172), self.rbytes(104)
                    e.update({"edc": edc, "p-parity": pp, "q-parity": qp})
                    data += edc + z + pp + qp
                elif p == "ecc280":
                    edc, pp, qp = self.rbytes(4), self.rbytes(172), self.rbytes(104)
                    e.update({"edc": edc, "p-parity": pp, "q-parity": qp})
                    data += edc + pp + qp
                elif p == "edc4":
                    edc = self.rbytes(4)
                    e["edc"] = edc
                    data += edc
            if c2ei == 1:
                b = self.rbytes(294)
                e["c2ei-data"] = b
                data += b
            elif c2ei == 2:
                b = self.rbytes(296)
                e["c2ei"] = {"data": b}
                data += b
            if scsb == 2:
                v = self.vals("cd_subchannel_q")
                q = self.enc("cd_subchannel_q", v)
                sc = dict(v)
                sc["data"] = q
                e["subchannel"] = sc
                data += q
            elif scsb == 4:
                b = self.rbytes(96)
                e["subchannel"] = {"data": b}
                data += b
            exp[str(lba + i)] = e
        return data, exp, {"lba": lba, "tl": tl, "est": est, "mcsb": mcsb, "c2ei": c2ei, "scsb": scsb}


def match(got, exp, path=""):
    """-> None when `got` (normalised parser result) reports exactly `exp`; else a description.
    Hidden structural keys may be present or absent in `got`."""
    if isinstance(exp, dict):
        if not isinstance(got, dict):
            return "%s: expected a dict, got %r" % (path, type(got).__name__)
        for k, v in exp.items():
            if k not in got:
                return "%s: field %r sent by the device is not reported" % (path, k)
            m = match(got[k], v, path + "/" + k)
            if m:
                return m
        for k in got:
            if k not in exp and k not in HIDDEN:
                return "%s: reports %r = %r which the device did not send" % (path, k, got[k])
        return None
    if isinstance(exp, list):
        if not isinstance(got, list):
            return "%s: expected a list, got %r" % (path, type(got).__name__)
        if len(got) != len(exp):
            return "%s: %d entries reported, the device sent %d inside the reported length" % (path, len(got), len(exp))
        for i, (g, e) in enumerate(zip(got, exp)):
            m = match(g, e, "%s[%d]" % (path, i))
            if m:
                return m
        return None
    if isinstance(exp, (bytes, bytearray)):
        if not isinstance(got, (bytes, bytearray)) or bytes(got) != bytes(exp):
            return "%s: decoded %r, the device sent %r" % (path, got if not isinstance(got, (bytes, bytearray)) else bytes(got)[:40], bytes(exp)[:40])
        return None
    if got != exp:
        return "%s: decoded %r, the device sent %r" % (path, got, exp)
    return None
