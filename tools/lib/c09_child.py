"""child of the C09 harness: runs one history in a fresh interpreter (so that "first use of a class
in this process" effects are visible) and prints the observations as a pickled, base64 line"""
import base64
import pickle
import sys
from pathlib import Path

sys.path.insert(0, str(Path(__file__).resolve().parents[1]))
from lib import cmds, common  # noqa: E402


def main():
    job = pickle.loads(base64.b64decode(sys.stdin.read()))
    common.bootstrap_repo()
    from pyscsi.pyscsi.scsi_command import SCSICommand
    sets = cmds.opcode_sets()
    objs = {}
    out = []
    for act, who in job["steps"]:
        p = job["classes"][who]
        cls = cmds.get_class(p["module"], p["cls"])
        op = cmds.find_op(sets[p["set"]], p["opname"])
        try:
            if act == "ctor":
                inst = cls(op, **p["kw"])
                objs[who] = inst
                out.append(("ctor", who, bytes(inst.cdb), bytes(inst.dataout), len(inst.datain)))
            elif act == "unmarshall":
                out.append(("unmarshall", who, cls.unmarshall_cdb(bytearray(p["cdb"]))))
            elif act == "marshall":
                out.append(("marshall", who, bytes(cls.marshall_cdb(dict(p["fields"])))))
            elif act == "base_unmarshall":      # the legacy entry points on the base class; result not judged
                try:
                    SCSICommand.unmarshall_cdb(bytearray(p["cdb"]))
                except Exception:
                    pass
                out.append(("base", who))
            elif act == "base_marshall":
                try:
                    SCSICommand.marshall_cdb(dict(p["fields"]))
                except Exception:
                    pass
                out.append(("base", who))
        except Exception as e:
            out.append((act, who, "raises " + type(e).__name__))
    sys.stdout.write(base64.b64encode(pickle.dumps(out)).decode())


if __name__ == "__main__":
    main()
