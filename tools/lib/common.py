"""Shared infrastructure for the checks: paths, repo bootstrap, Lean build/audit, driver, verdicts."""
import fcntl
import hashlib
import json
import os
import re
import subprocess
import sys
import time
from contextlib import contextmanager
from pathlib import Path

VERIF = Path(__file__).resolve().parents[2]
LEAN = VERIF / "lean"
REPO = Path(os.environ.get("VERIF_REPO", "/repo")).resolve()
SEED = int(os.environ.get("VERIF_SEED", "0") or 0)
PYTHON = "/venv/bin/python"
STUBS = VERIF / "tools" / "stubs"
ALLOWED_AXIOMS = {"propext", "Classical.choice", "Quot.sound"}
FORBIDDEN = re.compile(r"\bsorry\b|\badmit\b|^axiom |native_decide|bv_decide|implemented_by|\bunsafe |maxHeartbeats 0")

TRUSTED_BASE = [
    "Lean 4.33.0 kernel (decide +kernel = kernel evaluation, no extra axioms)",
    "axioms allowed in property theorems: propext, Classical.choice, Quot.sound (audited by #print axioms each run)",
    "translator tools/lib/gen_tables.py + gen_wiring.py (regenerates lean/ScsiVerif/Gen from the working tree)",
    "correspondence harness tools/props/*.py (generators, canonicalisation, stand-in bindings)",
    "lean/ScsiVerif/Std/*: transcription of SPC/SBC/SMC/MMC/SAT/SAM formats from knowledge (no documents in the sandbox)",
    "CPython semantics of the constructs mirrored by lean/ScsiVerif/Model (hand-written model, tied by sampling)",
]


class Infra(Exception):
    """infrastructure failure: exit 2, never a violation"""


class Stalled(BaseException):
    """a call into the code under test did not return within its wall-clock budget (BaseException: an `except Exception`
    in the code under test must not swallow it)"""


class time_limit:
    """`with time_limit(seconds):` — raises Stalled inside the block when it runs longer (main thread, SIGALRM)"""

    def __init__(self, seconds):
        self.seconds = seconds

    def __enter__(self):
        import signal

        def on_alarm(signum, frame):
            raise Stalled("no result within %.1f s" % self.seconds)
        self.old = signal.signal(signal.SIGALRM, on_alarm)
        signal.setitimer(signal.ITIMER_REAL, self.seconds)
        return self

    def __exit__(self, *exc):
        import signal
        signal.setitimer(signal.ITIMER_REAL, 0)
        signal.signal(signal.SIGALRM, self.old)
        return False


def bootstrap_repo(stubs=("sgio", "iscsi")):
    """Make `import pyscsi` resolve to the tree under test (VERIF_REPO, default /repo); the external
    bindings named in `stubs` are replaced by the harness' stand-ins, the others are made unimportable."""
    import importlib.util
    if str(REPO) not in sys.path[:1]:
        sys.path.insert(0, str(REPO))
    for k in list(sys.modules):
        if k == "pyscsi" or k.startswith("pyscsi.") or k in ("sgio", "iscsi"):
            del sys.modules[k]
    for name in ("sgio", "iscsi"):
        if name in stubs:
            spec = importlib.util.spec_from_file_location(name, str(STUBS / ("pkg_" + name) / (name + ".py")))
            mod = importlib.util.module_from_spec(spec)
            spec.loader.exec_module(mod)
            sys.modules[name] = mod
        else:
            sys.modules[name] = None   # import raises ImportError
    import pyscsi  # noqa

    if not str(Path(pyscsi.__file__).resolve()).startswith(str(REPO)):
        raise Infra("pyscsi imported from %s, not from %s" % (pyscsi.__file__, REPO))


@contextmanager
def build_lock():
    lock = LEAN / ".build.lock"
    with open(lock, "w") as f:
        fcntl.flock(f, fcntl.LOCK_EX)
        try:
            yield
        finally:
            fcntl.flock(f, fcntl.LOCK_UN)


def run(cmd, cwd=None, timeout=3600, env=None, input=None):
    e = dict(os.environ)
    if env:
        e.update(env)
    p = subprocess.run(cmd, cwd=cwd, timeout=timeout, env=e, input=input,
                       stdout=subprocess.PIPE, stderr=subprocess.STDOUT, text=True)
    return p.returncode, p.stdout


def write_if_changed(path: Path, content: str):
    path.parent.mkdir(parents=True, exist_ok=True)
    if path.exists() and path.read_text() == content:
        return False
    path.write_text(content)
    return True


_ERR_RE = re.compile(r"^error: (\S+?):(\d+):(\d+): (.*)$")


def theorems_in(path: Path):
    """[(line, qualified name)] of theorems in a Lean file (single namespace per file assumed)."""
    ns = []
    out = []
    for i, line in enumerate(path.read_text().splitlines(), 1):
        m = re.match(r"^namespace (\S+)", line)
        if m:
            ns.append(m.group(1))
        m = re.match(r"^end (\S+)", line)
        if m and ns:
            ns.pop()
        m = re.match(r"^(?:private |protected )?theorem (\S+)", line)
        if m:
            out.append((i, ".".join(ns + [m.group(1)])))
    return out


def lake_build(targets, timeout=3000):
    """Build targets; return (ok, failed_theorems, raw_output)."""
    rc, out = run(["lake", "build"] + list(targets), cwd=LEAN, timeout=timeout)
    failed = []
    if rc != 0:
        for line in out.splitlines():
            m = _ERR_RE.match(line)
            if m:
                f, ln = m.group(1), int(m.group(2))
                p = LEAN / f
                name = "%s:%d" % (f, ln)
                if p.exists():
                    best = None
                    for tl, tn in theorems_in(p):
                        if tl <= ln:
                            best = tn
                    if best:
                        name = best
                if name not in failed:
                    failed.append(name)
        if not failed:
            failed.append("build-failure-without-located-error")
    return rc == 0, failed, out


def grep_forbidden(files):
    hits = []
    for f in files:
        in_block = 0
        for i, line in enumerate(Path(f).read_text().splitlines(), 1):
            # strip block comments (/- ... -/) and line comments
            s = line
            res = ""
            j = 0
            while j < len(s):
                if s.startswith("/-", j):
                    in_block += 1
                    j += 2
                elif s.startswith("-/", j) and in_block:
                    in_block -= 1
                    j += 2
                elif in_block:
                    j += 1
                elif s.startswith("--", j):
                    break
                else:
                    res += s[j]
                    j += 1
            if FORBIDDEN.search(res):
                hits.append("%s:%d: %s" % (f, i, line.strip()))
    return hits


def lean_sources_for(modules):
    """transitive closure of project-local imports of the given modules -> list of file paths"""
    seen = {}
    todo = list(modules)
    while todo:
        m = todo.pop()
        if m in seen:
            continue
        p = LEAN / (m.replace(".", "/") + ".lean")
        if not p.exists():
            continue
        seen[m] = p
        for line in p.read_text().splitlines():
            mm = re.match(r"^import (ScsiVerif\S*)", line)
            if mm:
                todo.append(mm.group(1))
    return seen


def audit(prop_modules):
    """#print axioms on every theorem of the given Props modules. Returns (theorems, bad:list)."""
    names = []
    for m in prop_modules:
        p = LEAN / (m.replace(".", "/") + ".lean")
        names += [n for _, n in theorems_in(p)]
    src = "".join("import %s\n" % m for m in prop_modules)
    src += "".join("#print axioms %s\n" % n for n in names)
    tag = hashlib.sha1(" ".join(prop_modules).encode()).hexdigest()[:10]
    f = LEAN / ".lake" / ("audit_%s_%d.lean" % (tag, os.getpid()))
    f.parent.mkdir(exist_ok=True)
    f.write_text(src)
    try:
        rc, out = run(["lake", "env", "lean", str(f)], cwd=LEAN, timeout=1800)
    finally:
        try:
            f.unlink()
        except OSError:
            pass
    if rc != 0:
        raise Infra("axiom audit failed to run:\n" + out[-3000:])
    bad = []
    seen = 0
    # output blocks: "'name' depends on axioms: [a, b]" or "'name' does not depend on any axioms"
    text = re.sub(r"\s+", " ", out)
    for m in re.finditer(r"'([^']+)' (does not depend on any axioms|depends on axioms: \[([^\]]*)\])", text):
        seen += 1
        if m.group(3):
            ax = {a.strip() for a in m.group(3).split(",")}
            extra = ax - ALLOWED_AXIOMS
            if extra:
                bad.append("%s uses %s" % (m.group(1), sorted(extra)))
    if seen != len(names):
        raise Infra("axiom audit: expected %d reports, saw %d\n%s" % (len(names), seen, out[-2000:]))
    files = list(lean_sources_for(prop_modules).values())
    hits = grep_forbidden(files)
    bad += hits
    return names, bad


class Driver:
    """batch access to the compiled Lean model driver"""

    def __init__(self):
        self.bin = LEAN / ".lake" / "build" / "bin" / "driver"
        if not self.bin.exists():
            raise Infra("driver binary missing; run setup")

    def _run(self, lines, timeout):
        data = "\n".join(lines) + "\n"
        p = subprocess.run([str(self.bin)], input=data, stdout=subprocess.PIPE, stderr=subprocess.PIPE,
                           text=True, timeout=timeout)
        out = p.stdout.splitlines()
        return p.returncode, out, p.stderr

    def batch(self, lines, timeout=1800):
        """one reply per request; a request on which the driver process dies (stack overflow on a huge
        value, …) is answered `err CRASH` and the rest of the batch is still evaluated"""
        if not lines:
            return []
        rc, out, err = self._run(lines, timeout)
        if rc == 0 and len(out) == len(lines):
            return out
        if rc == 0:
            raise Infra("driver returned %d lines for %d requests" % (len(out), len(lines)))
        if len(lines) == 1:
            return ["err CRASH"]
        # the replies before the crash are valid; isolate the crashing request and continue after it
        good = out[:len(out)] if len(out) < len(lines) else []
        k = len(good)
        rc1, out1, _ = self._run(lines[k:k + 1], timeout)
        first = out1[:1] if (rc1 == 0 and len(out1) == 1) else ["err CRASH"]
        return good + first + self.batch(lines[k + 1:], timeout)


class Interactive:
    """request/response access to the driver (for the Lean target behind the transports)"""

    def __init__(self):
        self.bin = LEAN / ".lake" / "build" / "bin" / "driver"
        self.p = subprocess.Popen([str(self.bin)], stdin=subprocess.PIPE, stdout=subprocess.PIPE, text=True, bufsize=1)

    def ask(self, line):
        self.p.stdin.write(line + "\n")
        self.p.stdin.flush()
        r = self.p.stdout.readline()
        if not r:
            raise Infra("driver closed the pipe on: " + line)
        return r.rstrip("\n")

    def close(self):
        try:
            self.p.stdin.close()
            self.p.wait(timeout=10)
        except Exception:
            self.p.kill()


# ---------------------------------------------------------------- protocol encoders

def hx(b):
    return "x" + bytes(b).hex()


def enc_layout(layout):
    """layout: dict name -> [mask, off] | (kind, off, len)"""
    parts = []
    for k, v in layout.items():
        if len(v) == 2:
            parts.append("%s:m:%d:%d" % (k, v[0], v[1]))
        else:
            unit = {"b": 1, "w": 2, "dw": 4}[v[0]]
            parts.append("%s:b:%d:%d:%d" % (k, unit, v[1], v[2]))
    return "L" + ",".join(parts)


def enc_dict(d):
    parts = []
    for k, v in d.items():
        if isinstance(v, int):
            parts.append("%s=i%d" % (k, v))
        else:
            parts.append("%s=%s" % (k, hx(v)))
    return "D" + ",".join(parts)


def canon_dict(d):
    """canonical text of a python result dict of ints / byte strings (insertion order kept)"""
    parts = []
    for k, v in d.items():
        if isinstance(v, bool):
            v = int(v)
        if isinstance(v, int):
            parts.append("%s=i%d" % (k, v))
        else:
            parts.append("%s=%s" % (k, hx(v)))
    return "ok D" + ",".join(parts)


def exc_name(e):
    n = type(e).__name__
    return "err " + n


# ---------------------------------------------------------------- known findings / verdict

def load_known():
    p = VERIF / "known_findings.json"
    if not p.exists():
        return []
    return json.loads(p.read_text())["findings"]


class Result:
    """collects what a check did; turns it into stdout lines, evidence and an exit status"""

    def __init__(self, pid, tier):
        self.pid = pid
        self.tier = tier
        self.t0 = time.time()
        self.obligations = 0
        self.discharged = 0
        self.theorems = []
        self.failed_theorems = []
        self.cases = 0
        self.distinct = set()
        self.samples = []
        self.dist = {}
        self.violations = []          # (signature, what, replay dict)
        self.broken_tie = []          # descriptions of correspondence breaks (model != impl)
        self.known_printed = []
        self.notes = []
        self.exhaustive = False
        self.assumptions = []
        self.checker_cmd = ""

    def count(self, key, n=1):
        self.dist[key] = self.dist.get(key, 0) + n

    def case(self, key, sample=None):
        self.cases += 1
        h = hashlib.sha1(repr(key).encode()).digest()[:8]
        self.distinct.add(h)
        if sample is not None and len(self.samples) < 6:
            self.samples.append(sample)

    def violation(self, signature, what, replay):
        self.violations.append((signature, what, replay))

    def tie_break(self, what, replay):
        self.broken_tie.append((what, replay))

    # ------------------------------------------------------------
    def finish(self):
        known = [k for k in load_known() if k["property"] == self.pid and k.get("status") == "known"]
        known_sigs = {k["signature"]: k for k in known}
        new = []
        seen_known = {}
        for sig, what, replay in self.violations:
            if sig in known_sigs:
                seen_known[sig] = known_sigs[sig]
            else:
                new.append((sig, what, replay))
        for sig, k in seen_known.items():
            line = "KNOWN-FINDING: property=%s %s [%s]" % (self.pid, k["what"], sig)
            print(line)
            self.known_printed.append(line)
        status = 0
        rdir = VERIF / "replays" / self.pid
        nviol = 0
        if new:
            rdir.mkdir(parents=True, exist_ok=True)
            # one VIOLATION line per distinct signature (first few)
            done = set()
            for sig, what, replay in new:
                if sig in done:
                    continue
                done.add(sig)
                nviol += 1
                if len(done) > 5:
                    continue
                h = hashlib.sha1((sig + json.dumps(replay, sort_keys=True, default=str)).encode()).hexdigest()[:12]
                path = rdir / ("%s.json" % h)
                path.write_text(json.dumps({"property": self.pid, "signature": sig, "what": what,
                                            "replay": replay, "seed": SEED, "repo": str(REPO)},
                                           indent=1, default=str))
                print("VIOLATION property=%s replay=%s" % (self.pid, path))
            status = 1
        elif self.failed_theorems or self.broken_tie:
            rdir.mkdir(parents=True, exist_ok=True)
            rep = {"property": self.pid,
                   "theorems_no_longer_checked": self.failed_theorems,
                   "correspondence_no_longer_checked": [w for w, _ in self.broken_tie][:20],
                   "first_disagreement": (self.broken_tie[0][1] if self.broken_tie else None),
                   "note": "no input on which the implementation fails the property's oracle was found",
                   "seed": SEED, "repo": str(REPO)}
            h = hashlib.sha1(json.dumps(rep, sort_keys=True, default=str).encode()).hexdigest()[:12]
            path = rdir / ("nofail_%s.json" % h)
            path.write_text(json.dumps(rep, indent=1, default=str))
            print("VIOLATION property=%s replay=%s no-failing-input-found" % (self.pid, path))
            nviol = 1
            status = 1
        self.write_evidence(nviol)
        if status == 0:
            print("OK property=%s tier=%s theorems=%d/%d cases=%d known=%d wall=%.1fs" % (
                self.pid, self.tier, self.discharged, self.obligations, self.cases,
                len(self.known_printed), time.time() - self.t0))
        return status

    def write_evidence(self, nviol):
        ev = {
            "property_id": self.pid,
            "tier": self.tier,
            "seed": SEED,
            "level": "proof",
            "coverage": {
                "obligations": self.obligations,
                "discharged": self.discharged,
                "checker_cmd": self.checker_cmd or "cd lean && lake build ScsiVerif.Props.%s (+ #print axioms audit)" % self.pid,
                "trusted_base": TRUSTED_BASE,
                "theorems": self.theorems,
                "theorems_failed": self.failed_theorems,
                "evaluations": self.cases,
                "distinct_nontrivial": len(self.distinct),
                "rule": "correspondence cases: implementation vs Lean model vs property oracle; distinct = distinct (operation, input) tuples, all inside the property's domain",
                "samples": self.samples or ["(no correspondence sample recorded)"],
                "distribution": self.dist,
                "exhaustive": self.exhaustive,
                "known_findings_reproduced": self.known_printed,
                "correspondence_breaks": len(self.broken_tie),
                "notes": self.notes,
            },
            "assumptions": self.assumptions,
            "wall_s": round(time.time() - self.t0, 2),
            "violations": nviol,
        }
        # runs against a scratch copy (seeded changes, mutants) must not overwrite the committed evidence
        d = VERIF / "evidence" if str(REPO) == "/repo" else VERIF / "work" / "evidence_scratch"
        d.mkdir(parents=True, exist_ok=True)
        (d / ("%s.json" % self.pid)).write_text(json.dumps(ev, indent=1, default=str))
