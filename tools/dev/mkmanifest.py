#!/usr/bin/env python3
"""development helper: (re)write MANIFEST.json from the table below"""
import json
from pathlib import Path

V = Path(__file__).resolve().parents[2]
props = [json.loads(l) for l in open(V / "properties.jsonl")]
T = {
 "C01": ("generic Lean theorem cdb_meets_standard (all argument values) + per command/per set obligations decided by the kernel on tables and constructor wiring regenerated from the source; three-way correspondence constructor / model / Std.encode",
         "Std/Cdb.lean is a transcription of the standards from knowledge; translator tools/lib/gen.py trusted (cross-checked by correspondence); tuples allocating > 1 MiB are not executed on the real code; ATA constructors are outside the translator's normal form (CDB wiring extracted, buffers hand-modelled and tied by exhaustive flag enumeration)"),
 "C02": ("Lean theorems decode_encode / encode_decode / locality for every well-formed layout, all_cdb_layouts_wf decided by the kernel on the regenerated CDB tables; correspondence of Class.marshall_cdb/unmarshall_cdb with the model",
         "static (un)marshall is exercised immediately after constructing an instance of the class (the class-level state is C09's subject); model of converter.py hand-written, tied by C10's correspondence"),
 "C03": ("Lean theorems buffers_match / param_list_buffers (all argument values), SAT transfer rules for ATA, iSCSI direction; all_commands_allocate_by_rule decided on regenerated constructor descriptions; correspondence with real constructors and the iSCSI stand-in",
         "READ CD over-allocation (3072 B/sector) proved as stated, not judged; READ CAPACITY(10) has no allocation-length field; ATA transfer computation is a hand model tied by exhaustive enumeration of the flag combinations"),
 "C04": ("Lean: DataCompat.compatible_sound (decode_bits with a table that sits on the standard's fields returns the device's values for all in-range values and any trailing bytes) + all_response_tables_conform decided by the kernel on the 66 regenerated response tables; decoder theorems for all values / descriptor counts / trailing bytes: READ CAPACITY 10/16, standard INQUIRY, VPD 00/80/86/B0/B1/B2/B3, PR IN READ KEYS / READ RESERVATION, READ DISC INFORMATION (track, POW), GET LBA STATUS, REPORT LUNS; correspondence: conformant responses of all 24 formats encoded by the Lean oracle, fed to the real parsers, compared with the values sent and with the Lean decoder model",
         "decoder-level theorems are not yet proved for MODE SENSE, VPD 83h, RTPG, READ ELEMENT STATUS, READ FULL STATUS, REPORT PRIORITY, REPORT CAPABILITIES (two readings of the type mask), standard disc information (msb/lsb combination) and READ CD: for those the tables are proved conformant and the decoders are tied by correspondence only; structured responses other than GET LBA STATUS / REPORT LUNS / READ KEYS are composed by the harness from Lean-encoded blocks; Std/DataIn.lean is from knowledge and leaves out the ATA Information VPD page, SOP TransportIDs, designator type 9h, READ CD layouts outside the listed ones"),
 "C05": ("Lean: all_parameter_tables_conform (36 builder tables well formed and on the standard's fields, kernel-decided on regenerated tables) + parameter_block_sound (encode_dict of in-range values into a zeroed buffer IS the standard's block: every value at the standard's position, all other bits zero, for all values) + _pad4_len laws; correspondence: valid dictionaries for MODE SELECT 6/10 (1-3 pages of every marshallable kind), PERSISTENT RESERVE OUT (basic / SPEC_I_PT with 0..3 TransportIDs / REGISTER AND MOVE, all TransportID kinds, iSCSI name lengths across the padding boundary) and EXTENDED COPY LID1/LID4 (0..5 CSCD descriptors, 0..4 segment descriptors of every implemented type, inline data) through the real constructors; dataout compared byte for byte with the list assembled from Lean-encoded standard blocks, CDB parameter list length read at the standard's position, builder model (Enc.*) tied on the same inputs",
         "the composition of whole parameter lists (concatenation, length fields) is proved honest only at block level; list-level length bookkeeping (TRANSPORTID PARAMETER DATA LENGTH, descriptor list lengths, MODE DATA LENGTH) is decided by correspondence against the harness-composed expected list; constructibility is observed, not proved; iSCSI names shorter than 16 characters (ADDITIONAL LENGTH < 20) and the reserved MODE DATA LENGTH / PS of MODE SELECT lists are recorded, not judged"),
 "C06": ("Lean: all_two_way_tables_conform / fully_covered_ok (kernel-decided) + reparse_built (dict->bytes->dict returns the supplied values), rebuild_canonical (bytes->dict->bytes reproduces the standard's structure byte for byte), rmw_only_field_bits (structures differing in one field agree in every other bit) for all values, with the Control mode page / SWP instance of tools/swp.py; correspondence on 16 two-way structures: marshall(unmarshall(b)) == b on canonical oracle responses, unmarshall(marshall(d)) == d, read-modify-write of a random field (same length, re-parse equals the modified dictionary, changed bits = bits in which the values differ), the explicit SWP flip, builder model tie",
         "theorems are at block (table) level; whole-structure round trips (headers + descriptor lists, designators, TransportIDs) are decided by correspondence; canonical = reserved bits zero, no trailing bytes, no block descriptors, one known mode page, 96-byte standard INQUIRY; VPD pages the library cannot build (00h, B0h, B1h, 89h) are outside the property"),
 "C09": ("Lean theorem isolation for every schedule (any number of threads, any interleaving of constructor / encode / decode actions at attribute-access granularity), witness of the pre-repair design, sequential histories; correspondence incl. two real threads under a deterministic line-level scheduler through all interleavings with <= 2 preemptions",
         "atomicity of attribute access under the GIL is assumed; the shared-state model (per-class CDB length, immutable class layouts) is hand-written and tied by histories and enumerated schedules; every construction of a class uses an opcode of the same group"),
 "C10": ("Lean theorems about the converter model (all widths, alignments, offsets, values, prior contents) + high-volume correspondence of the four converter functions with the model",
         "Model/Conv.lean is hand-written (tied by correspondence: random layouts, exhaustive narrow fields); zero masks are outside the domain; order independence with blob fields is covered by correspondence only"),
 "C14": ("kernel-decided theorems over the regenerated opcode/service-action/status tables against the T10 oracle, cross-set consistency, and cdb_length_is_sam for all 256 operation codes; exhaustive correspondence of init_cdb",
         "Std/T10.lean is from knowledge; names without an oracle entry are counted, not judged; initCdbLen is a hand model tied exhaustively over 0..255"),
 "C07": ("Lean theorems over the execute models of both transports: returns only on GOOD (all status values, all sense, raw sense on/off), CHECK CONDITION raises CheckCondition built from the sense sent now, named errors, any position in any sequence (induction), facade passes errors on without decoding; exhaustive correspondence over all 256 status bytes",
         "the external bindings are stand-ins embodying the stated contract (sgio: CheckConditionError(sense)/UnspecifiedError; iscsi: task.status/raw_sense); what the real C bindings do is not verified; Exec model hand-written, tied exhaustively"),
 "C08": ("Lean theorems never_raises and reports_spc_fields for every non-empty sense buffer (any response code, length, contents), T10 texts of ~80 well-known ASC/ASCQ codes decided on the regenerated table; correspondence incl. all 65536 pairs",
         "sense layout/text tables regenerated from source; Std/Sense.lean text list is partial (remaining table entries modelled, not verified); length-0 buffers outside the property"),
 "C11": ("Lean: every decoder model is a total function (each loop accepted by the termination checker with a proof that the buffer shrinks) and iteration-count bounds proved for every byte string; witness that the pre-repair READ ELEMENT STATUS loop diverges; on the real code every unmarshall routine and the sense decoder run under a traced-line budget on hostile buffers, and agree with the model where both decode",
         "termination of the real Python code is decided by the budgeted run (Lean cannot exhibit a hang of the real program); decoder models hand-written, tied on ~40k hostile buffers"),
 "C12": ("Lean theorems: the conformant target (decoding by byte position) refines an abstract disk for every sequence of write/write-same/sync/read commands (induction), write-then-read for any LBA/length/block size/payload, capacity and identity replies; library CDBs are conformant by C01; correspondence runs the real facade over both transports against the Lean target",
         "the target is a Lean model (real devices/bindings not verified); composition with C01/C03 is by citation of those theorems' conclusions (Conformant hypothesis); WRITE SAME is covered at the target-effect level"),
 "C13": ("Lean theorems about the facade method model for all behaviours of constructor/device/decoder + kernel-decided facts about the 38 methods (shape, documented class, opcode source, by-name forwarding) on the description regenerated from scsi.py; correspondence over a recording device with every subset of optional kwargs and failure injection",
         "the facade model is abstract (construct/execute/unmarshall outcomes as parameters); translator extracts events in source order; buffer contents: one conformant response per decoding method"),
 "C15": ("Lean invariant proved by induction over event histories of any length (sent only through an open handle on the current node, superseded handles closed once, close failure still reopens, vanished node is an error, detection off keeps the handle, released exactly once); correspondence over a virtual OS",
         "inode reuse by the OS is not modelled (fresh inode numbers assumed); a failing close() is assumed to release the descriptor; Handle model hand-written, tied by random event sequences"),
 "C16": ("Lean theorems: selection for all 256 first INQUIRY bytes, every set offers the primary commands with T10 opcodes (decided on regenerated tables), one INQUIRY per attach, no leak between devices for every attach history (induction); exhaustive correspondence on both transports",
         "pdtChain is a hand mirror of __init_opcode tied exhaustively over 256 values; 02h/09h→ssc and 03h→spc are allowed by the property"),
 "C18": ("Lean theorems: refinement of add/remove to an ordinary dictionary for all operation sequences (induction), KeyError refusals, reverse lookup laws, isolation between enumerations for all interleaved histories; correspondence with the real Enum",
         "domain: plain names (no '__' prefix, no metaclass attribute names) and non-callable values; Python == on values is a parameter (generator guarantees token equality); EnumM model hand-written"),
 "C19": ("Lean theorems: init_device refused iff no (prefix, binding) match, no effect on refusal, exact path/mode/URL/initiator, for all device strings and all four configurations; the import half is decided by exhaustive execution in four fresh interpreters",
         "Python's import machinery is not modelled (enumerated instead); presence of a binding = importable stand-in module"),
 "C17": ("Lean theorems: zero block size refused for all other arguments (guards regenerated from source), ATA refusal iff condition, refused opcode groups for all 256 values, unknown PR IN service actions for all integers; facade-level observation that nothing is sent",
         "EXTENDED COPY / TransportID refusals are decided on the implementation by enumeration of invalid-input classes (the Lean builder model Enc.* mirrors them; no theorem yet); facade observed through a recording device"),
}
built = sorted(T)
checks = []
for p in props:
    if p["id"] in T:
        t = T[p["id"]]
        checks.append({"property_id": p["id"],
                       "quick_cmd": "python3 tools/check.py %s --tier quick" % p["id"],
                       "thorough_cmd": "python3 tools/check.py %s --tier thorough" % p["id"],
                       "evidence_file": "evidence/%s.json" % p["id"],
                       "replay_cmd_template": "python3 tools/check.py %s --replay {path}" % p["id"],
                       "engine": "lean-proof+correspondence",
                       "level_claimed": {"category": "proof", "text": t[0], "design_ref": "DESIGN.md section 6 (%s)" % p["id"]},
                       "level_note": t[1],
                       "technique": "Lean 4 theorems over an executable model + kernel-decided obligations on tables regenerated from the source + model/implementation correspondence"})
man = {"version": 1,
       "setup_cmd": "python3 tools/setup.py",
       "hooks": {"guard": "PYSCSI_VERIF",
                 "enable": "none needed: the external bindings are replaced by stand-ins injected through sys.modules by the harness; no source hooks",
                 "baseline_off_cmd": "cd /repo && /venv/bin/python -m pytest -q -p no:cacheprovider --timeout=900",
                 "source_commits": [], "add_only": True},
       "engines": [{"name": "lean-proof", "path": "lean/", "serves_properties": built,
                    "kind_free_text": "Lean 4.33 theorems (core only) over an executable model; lean/ScsiVerif/Gen regenerated from the repo every run"},
                   {"name": "correspondence-harness", "path": "tools/", "serves_properties": built,
                    "kind_free_text": "differential run of the real code, the Lean model (compiled driver, line protocol) and the Lean oracle Std/"}],
       "checks": checks,
       "not_applicable": [{"property_id": p["id"], "reason": "machinery for this property is not built yet (work in progress; planned per DESIGN.md section 6)"}
                          for p in props if p["id"] not in T],
       "notes": "see DESIGN.md; known_findings.json lists fixed/known defects of the repository"}
json.dump(man, open(V / "MANIFEST.json", "w"), indent=1)
print("MANIFEST: %d checks, %d not_applicable" % (len(checks), len(man["not_applicable"])))
