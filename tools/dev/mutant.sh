#!/bin/bash
# usage: mutant.sh <ID[,ID..]> <file-relative-to-repo> <sed-expr> [tier]
# copies /repo to a scratch dir, applies the edit, runs the checks against it, removes the copy
set -u
IDS=$1; FILE=$2; EXPR=$3; TIER=${4:-quick}
D=$(mktemp -d /tmp/mut_XXXXXX)
cp -r /repo/. $D/
sed -i "$EXPR" $D/$FILE
( cd $D && git diff --stat | tail -1 )
if ( cd $D && git diff --quiet ); then echo "MUTATION DID NOT APPLY"; rm -rf $D; exit 3; fi
( cd $D && /venv/bin/python -m pytest -q -p no:cacheprovider -x 2>&1 | grep -E "passed|failed" )
for ID in ${IDS//,/ }; do
  VERIF_REPO=$D python3 /verif/tools/check.py $ID --tier $TIER 2>&1 | grep -E "VIOLATION|OK property|INFRA|KNOWN" | head -5
done
rm -rf $D
