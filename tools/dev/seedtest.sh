#!/bin/bash
# usage: seedtest.sh <worktree-with-change> <seed-name> <ID[,ID..]>
# confirms the seeded change (tests pass, demo fails with / passes without), runs the checks against it,
# stores patch+demo+meta under /verif/seeded/<seed-name>/
set -u
W=$1; NAME=$2; IDS=$3
cd $W || exit 3
git diff -- pyscsi > patch.diff
[ -s patch.diff ] || { echo "no change in $W"; exit 3; }
T=$(PYTHONPATH=$W /venv/bin/python -m pytest -q -p no:cacheprovider 2>&1 | grep -E "passed|failed" | tail -1)
PYTHONPATH=$W /venv/bin/python demo.py >/dev/null 2>&1; WITH=$?
git stash -q -- pyscsi; PYTHONPATH=$W /venv/bin/python demo.py >/dev/null 2>&1; WITHOUT=$?; git stash pop -q
echo "tests: $T | demo with change: exit $WITH | without: exit $WITHOUT"
RES=""
for ID in ${IDS//,/ }; do
  R=$(VERIF_REPO=$W timeout 1900 python3 /verif/tools/check.py $ID --tier quick 2>&1 | grep -E "VIOLATION|OK property|INFRA" | head -2 | tr '\n' ' ')
  echo "  $ID: $R"
  RES="$RES$ID: $R; "
done
D=/verif/seeded/$NAME; mkdir -p $D
cp patch.diff $D/; cp demo.py $D/ 2>/dev/null; cp meta.txt $D/meta_from_author.txt 2>/dev/null
python3 - "$D" "$NAME" "$T" "$WITH" "$WITHOUT" "$RES" <<'PY'
import json,sys
d,name,t,w,wo,res=sys.argv[1:7]
json.dump({"seed":name,"breaks_property":name.split("_")[0],"needs":open(d+"/meta_from_author.txt").read() if __import__("os").path.exists(d+"/meta_from_author.txt") else "",
 "confirmed":{"existing_tests":t,"demo_exit_with_change":int(w),"demo_exit_without_change":int(wo)},
 "ran":"tools/dev/seedtest.sh (VERIF_REPO=<scratch worktree> python3 tools/check.py <ID> --tier quick)","check_results":res},open(d+"/meta.json","w"),indent=1)
PY
