#!/usr/bin/env python3
"""development helper: record the source fingerprints of /repo's committed HEAD (run when the model is brought up to
date with the code; the result is committed)."""
import json
import os
import subprocess
import sys
import tempfile
from pathlib import Path

PY = "/venv/bin/python"
if os.path.realpath(sys.executable) != os.path.realpath(PY) and os.path.exists(PY):
    os.execv(PY, [PY, str(Path(__file__).resolve())] + sys.argv[1:])
V = Path(__file__).resolve().parents[2]
sys.path.insert(0, str(V / "tools"))
from lib import fingerprint  # noqa

head = subprocess.run(["git", "-C", "/repo", "rev-parse", "HEAD"], capture_output=True, text=True).stdout.strip()
with tempfile.TemporaryDirectory(prefix="fp_", dir="/tmp") as t:
    subprocess.run("git -C /repo archive HEAD pyscsi | tar -x -C %s" % t, shell=True, check=True)
    fns = fingerprint.scan(t)
(V / "tools" / "fingerprints.json").write_text(json.dumps({"repo_commit": head, "functions": fns}, indent=0, sort_keys=True))
print("recorded %d fingerprints at %s" % (len(fns), head[:10]))
