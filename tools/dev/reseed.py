#!/usr/bin/env python3
"""development helper: re-run every seeded change under /verif/seeded against the current checks.
For each seed: scratch copy of /repo under /tmp, apply patch.diff, run the quick check of the
property it breaks (VERIF_REPO=<copy>), record the outcome in meta.json, remove the copy."""
import json
import os
import shutil
import subprocess
import sys
import tempfile
from pathlib import Path

V = Path(__file__).resolve().parents[2]
only = sys.argv[1:]
rows = []
for d in sorted((V / "seeded").iterdir()):
    if not (d / "patch.diff").exists() or (only and not any(d.name.startswith(o) for o in only)):
        continue
    meta = json.loads((d / "meta.json").read_text()) if (d / "meta.json").exists() else {"seed": d.name}
    pid = d.name.split("_")[0]
    tmp = tempfile.mkdtemp(prefix="reseed_", dir="/tmp")
    try:
        subprocess.run(["cp", "-r", "/repo/.", tmp], check=True)
        r = subprocess.run(["git", "apply", str(d / "patch.diff")], cwd=tmp, capture_output=True, text=True)
        if r.returncode != 0:
            rows.append((d.name, "PATCH DOES NOT APPLY: " + r.stderr.strip()[:100]))
            continue
        t = subprocess.run(["/venv/bin/python", "-m", "pytest", "-q", "-p", "no:cacheprovider"], cwd=tmp, capture_output=True, text=True,
                           env=dict(os.environ, PYTHONPATH=tmp))
        tests = [l for l in t.stdout.splitlines() if "passed" in l or "failed" in l][-1:]
        env = dict(os.environ, VERIF_REPO=tmp)
        c = subprocess.run(["python3", str(V / "tools" / "check.py"), pid, "--tier", "quick"], capture_output=True, text=True, env=env, cwd=str(V))
        lines = [l for l in c.stdout.splitlines() if l.startswith(("VIOLATION", "OK ", "INFRA"))]
        verdict = "caught" if c.returncode == 1 and any(l.startswith("VIOLATION") for l in lines) else ("MISSED" if c.returncode == 0 else "INFRA exit %d" % c.returncode)
        meta["recheck"] = {"property": pid, "verdict": verdict, "exit": c.returncode, "lines": lines[:3], "existing_tests": tests}
        (d / "meta.json").write_text(json.dumps(meta, indent=1))
        rows.append((d.name, verdict + " | " + (lines[0] if lines else "")[:110]))
        print("%-42s %s" % rows[-1], flush=True)
    finally:
        shutil.rmtree(tmp, ignore_errors=True)
print("---- %d seeds: %d caught by the check of their own property" % (len(rows), sum(1 for r in rows if r[1].startswith("caught"))), flush=True)
for r in rows:
    if not r[1].startswith("caught"):
        print("%-42s %s" % r)
# restore Gen for /repo
subprocess.run(["python3", str(V / "tools" / "setup.py")], capture_output=True)
