#!/bin/bash
# run every registered quick check on /repo (clean evidence for committing), validate manifest+evidence
cd /verif
IDS=$(python3 -c "import json; print(' '.join(c['property_id'] for c in json.load(open('MANIFEST.json'))['checks']))")
FAIL=0
for ID in $IDS; do
  OUT=$(python3 tools/check.py $ID --tier ${1:-quick} 2>&1 | grep -E "^OK|VIOLATION|INFRA|KNOWN" | head -3)
  echo "$OUT"
  echo "$OUT" | grep -q "^OK" || FAIL=1
done
python3-vt - <<'PY'
import json,jsonschema,glob
jsonschema.validate(json.load(open('MANIFEST.json')), json.load(open('/root/.vp/MANIFEST.schema.json')))
bad=0
for c in json.load(open('MANIFEST.json'))['checks']:
    e=json.load(open(c['evidence_file']))
    jsonschema.validate(e, json.load(open('/root/.vp/EVIDENCE.schema.json')))
    cov=e['coverage']
    if cov['obligations']!=cov['discharged'] or e.get('violations'):
        print("EVIDENCE PROBLEM", c['property_id'], cov['obligations'], cov['discharged'], e.get('violations')); bad=1
print("manifest+evidence valid" if not bad else "PROBLEMS")
PY
exit $FAIL
