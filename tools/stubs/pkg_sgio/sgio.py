"""Stand-in for the external `sgio` binding (python-sgio), driven by the harness.

Contract embodied (DESIGN.md, trusted base): execute(file, cdb, dataout, datain) returns on GOOD,
raises CheckConditionError(sense) on CHECK CONDITION and UnspecifiedError on every other outcome."""

BACKEND = None      # callable(file, cdb, dataout, datain) -> (status:int, sense:bytes|None[, residual:int])
CALLS = []


class CheckConditionError(Exception):
    def __init__(self, sense):
        Exception.__init__(self, "CHECK CONDITION")
        self.sense = sense


class UnspecifiedError(Exception):
    pass


class TransportError(Exception):
    pass


def execute(file, cdb, dataout, datain, *args, **kwargs):
    CALLS.append((file, cdb, dataout, datain))
    if BACKEND is None:
        return None
    out = BACKEND(file, cdb, dataout, datain)
    status, sense = out[0], out[1]
    if status == 0x00:
        # a three-element answer carries the SG_IO residual (bytes of the data-in buffer the device did not fill),
        # which the binding hands back to its caller
        return out[2] if len(out) > 2 else None
    if status == 0x02:
        raise CheckConditionError(sense)
    raise UnspecifiedError("status %#x" % status)
