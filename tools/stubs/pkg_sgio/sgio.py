"""Stand-in for the external `sgio` binding (python-sgio), driven by the harness.

Contract embodied (DESIGN.md, trusted base): execute(file, cdb, dataout, datain) returns on GOOD,
raises CheckConditionError(sense) on CHECK CONDITION and UnspecifiedError on every other outcome."""

BACKEND = None      # callable(file, cdb, dataout, datain) -> (status:int, sense:bytes|None)
CALLS = []


class CheckConditionError(Exception):
    def __init__(self, sense):
        Exception.__init__(self, "CHECK CONDITION")
        self.sense = sense


class UnspecifiedError(Exception):
    pass


class TransportError(Exception):
    pass


def execute(file, cdb, dataout, datain, *args, **kwargs):
    CALLS.append((file, cdb, dataout, datain))
    if BACKEND is None:
        return None
    status, sense = BACKEND(file, cdb, dataout, datain)
    if status == 0x00:
        return None
    if status == 0x02:
        raise CheckConditionError(sense)
    raise UnspecifiedError("status %#x" % status)
