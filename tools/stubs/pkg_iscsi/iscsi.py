"""Stand-in for the external `iscsi` binding (python-libiscsi), driven by the harness."""

ISCSI_SESSION_NORMAL = 2
ISCSI_HEADER_DIGEST_NONE_CRC32C = 1
SCSI_XFER_NONE = 0
SCSI_XFER_READ = 1
SCSI_XFER_WRITE = 2

BACKEND = None      # callable(lun, task, dataout, datain) -> (status:int, sense:bytes|None|'absent')
LOG = []


class Context:
    def __init__(self, initiator_name):
        self.initiator_name = initiator_name
        LOG.append(("context", initiator_name))

    def set_targetname(self, t):
        LOG.append(("targetname", t))

    def set_session_type(self, t):
        LOG.append(("session_type", t))

    def set_header_digest(self, d):
        LOG.append(("header_digest", d))

    def connect(self, portal, lun):
        LOG.append(("connect", portal, lun))

    def disconnect(self):
        LOG.append(("disconnect",))

    def command(self, lun, task, dataout, datain):
        LOG.append(("command", lun, bytes(task.cdb), task.dir, task.xferlen))
        if BACKEND is None:
            task.status = 0
            return
        status, sense = BACKEND(lun, task, dataout, datain)
        task.status = status
        if not (isinstance(sense, str) and sense == "absent"):
            task.raw_sense = sense


class URL:
    def __init__(self, ctx, url):
        # iscsi://portal/target/lun
        rest = url[len("iscsi://"):]
        parts = rest.split("/")
        self.portal = parts[0] if parts else ""
        self.target = parts[1] if len(parts) > 1 else ""
        try:
            self.lun = int(parts[2]) if len(parts) > 2 else 0
        except ValueError:
            self.lun = 0
        LOG.append(("url", url))


class Task:
    def __init__(self, cdb, dir, xferlen):
        self.cdb = cdb
        self.dir = dir
        self.xferlen = xferlen
        self.status = None
